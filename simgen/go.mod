module verif/simgen

go 1.24
