// vcheck is the simulator binary: the rewritten deepteams/webp library linked with
// the vsim runtime and the harness. See /verif/DESIGN.md.
package main

import "github.com/deepteams/webp/internal/verifh"

func main() { verifh.Main() }
