// Package ssync replaces package sync in the rewritten library. Same identifiers,
// same semantics, but blocking is a simulator state, every operation is a
// scheduling point ("yield before, then perform atomically"), and the choices the
// Go runtime makes (who gets a released mutex, whom Signal wakes, which pooled
// object Get returns) are scheduler decisions.
//
// Under -race the primitives give ThreadSanitizer exactly the happens-before
// edges of the real ones (see DESIGN.md 2.4).
package ssync

import (
	"unsafe"

	"github.com/deepteams/webp/internal/vsim"
)

// wl is an intrusive FIFO waiter list (a task waits on one object at a time),
// manipulated only with plain loads/stores.
type wl struct {
	head, tail *vsim.Task
	n          int
}

//go:norace
func (l *wl) add(t *vsim.Task) {
	t.Next = nil
	if l.tail == nil {
		l.head = t
	} else {
		l.tail.Next = t
	}
	l.tail = t
	l.n++
}

//go:norace
func (l *wl) take(i int) *vsim.Task {
	var prev *vsim.Task
	t := l.head
	for ; i > 0 && t != nil; i-- {
		prev = t
		t = t.Next
	}
	if t == nil {
		return nil
	}
	if prev == nil {
		l.head = t.Next
	} else {
		prev.Next = t.Next
	}
	if l.tail == t {
		l.tail = prev
	}
	t.Next = nil
	l.n--
	return t
}

//go:norace
func (l *wl) has(t *vsim.Task) bool {
	for x := l.head; x != nil; x = x.Next {
		if x == t {
			return true
		}
	}
	return false
}

//go:norace
func (l *wl) wakeAll() int {
	n := l.n
	for x := l.head; x != nil; {
		nx := x.Next
		x.Next = nil
		vsim.Unblock(x)
		x = nx
	}
	l.head, l.tail, l.n = nil, nil, 0
	return n
}

// Locker is sync.Locker.
type Locker interface {
	Lock()
	Unlock()
}

// ---------------------------------------------------------------- Mutex

type Mutex struct {
	locked  bool
	waiters wl
	id, g   uint32
}

//go:norace
func (m *Mutex) oid() uint32 { return vsim.ObjID(&m.g, &m.id) }

//go:norace
func (m *Mutex) Lock() {
	if !vsim.Active() {
		m.locked = true
		return
	}
	vsim.Yield(vsim.OpLock, m.oid())
	if m.locked {
		vsim.Probe(vsim.PMutexContended)
	}
	for m.locked {
		m.waiters.add(vsim.Cur())
		vsim.Block(vsim.OpLock, m.oid())
		if !vsim.Active() {
			return
		}
	}
	m.locked = true
	vsim.Acquire(unsafe.Pointer(m))
}

//go:norace
func (m *Mutex) TryLock() bool {
	if !vsim.Active() {
		m.locked = true
		return true
	}
	vsim.Yield(vsim.OpLock, m.oid())
	if m.locked {
		return false
	}
	m.locked = true
	vsim.Acquire(unsafe.Pointer(m))
	return true
}

//go:norace
func (m *Mutex) Unlock() {
	if !vsim.Active() {
		m.locked = false
		return
	}
	vsim.Yield(vsim.OpUnlock, m.oid())
	if !m.locked {
		panic("sync: unlock of unlocked mutex")
	}
	vsim.Release(unsafe.Pointer(m))
	m.locked = false
	if n := m.waiters.n; n > 0 {
		// One waiter is made runnable (which one is a scheduler decision); it
		// re-checks m.locked when it runs, so barging by a third task is possible,
		// as with the real mutex.
		vsim.Unblock(m.waiters.take(vsim.ChooseWaiter(n)))
	}
}

// ---------------------------------------------------------------- RWMutex

type RWMutex struct {
	writer  bool
	readers int
	waiters wl
	id, g   uint32
}

//go:norace
func (m *RWMutex) oid() uint32 { return vsim.ObjID(&m.g, &m.id) }

//go:norace
func (m *RWMutex) Lock() {
	if !vsim.Active() {
		m.writer = true
		return
	}
	vsim.Yield(vsim.OpLock, m.oid())
	for m.writer || m.readers > 0 {
		m.waiters.add(vsim.Cur())
		vsim.Block(vsim.OpLock, m.oid())
		if !vsim.Active() {
			return
		}
	}
	m.writer = true
	vsim.Acquire(unsafe.Pointer(m))
	vsim.Acquire(unsafe.Pointer(&m.readers))
}

//go:norace
func (m *RWMutex) Unlock() {
	if !vsim.Active() {
		m.writer = false
		return
	}
	vsim.Yield(vsim.OpUnlock, m.oid())
	if !m.writer {
		panic("sync: Unlock of unlocked RWMutex")
	}
	vsim.Release(unsafe.Pointer(m))
	m.writer = false
	m.waiters.wakeAll()
}

//go:norace
func (m *RWMutex) RLock() {
	if !vsim.Active() {
		m.readers++
		return
	}
	vsim.Yield(vsim.OpRLock, m.oid())
	for m.writer {
		m.waiters.add(vsim.Cur())
		vsim.Block(vsim.OpRLock, m.oid())
		if !vsim.Active() {
			return
		}
	}
	m.readers++
	vsim.Acquire(unsafe.Pointer(m))
}

//go:norace
func (m *RWMutex) RUnlock() {
	if !vsim.Active() {
		m.readers--
		return
	}
	vsim.Yield(vsim.OpRUnlock, m.oid())
	if m.readers <= 0 {
		panic("sync: RUnlock of unlocked RWMutex")
	}
	vsim.ReleaseMerge(unsafe.Pointer(&m.readers))
	m.readers--
	if m.readers == 0 {
		m.waiters.wakeAll()
	}
}

func (m *RWMutex) RLocker() Locker { return (*rlocker)(m) }

type rlocker RWMutex

func (r *rlocker) Lock()   { (*RWMutex)(r).RLock() }
func (r *rlocker) Unlock() { (*RWMutex)(r).RUnlock() }

// ---------------------------------------------------------------- Cond

type Cond struct {
	L       Locker
	waiters wl
	id, g   uint32
}

func NewCond(l Locker) *Cond { return &Cond{L: l} }

//go:norace
func (c *Cond) oid() uint32 { return vsim.ObjID(&c.g, &c.id) }

// Wait: a scheduling point at entry (the caller still holds L and has not yet
// enqueued itself: a signaller running here finds no waiter), then enqueue+unlock
// as one atomic step, block until woken, re-lock.
//
//go:norace
func (c *Cond) Wait() {
	if !vsim.Active() {
		return
	}
	vsim.Probe(vsim.PCondSlow)
	vsim.Yield(vsim.OpCondWait, c.oid())
	me := vsim.Cur()
	c.waiters.add(me)
	c.L.Unlock()
	for vsim.Active() && c.waiters.has(me) {
		vsim.Block(vsim.OpCondWait, c.oid())
	}
	c.L.Lock()
}

//go:norace
func (c *Cond) Broadcast() {
	if !vsim.Active() {
		return
	}
	vsim.Yield(vsim.OpBroadcast, c.oid())
	if n := c.waiters.wakeAll(); n > 0 {
		for i := 0; i < n; i++ {
			vsim.Probe(vsim.PCondWoken)
		}
	}
}

//go:norace
func (c *Cond) Signal() {
	if !vsim.Active() {
		return
	}
	vsim.Yield(vsim.OpSignal, c.oid())
	if n := c.waiters.n; n > 0 {
		vsim.Unblock(c.waiters.take(vsim.ChooseWaiter(n)))
		vsim.Probe(vsim.PCondWoken)
	}
}

// ---------------------------------------------------------------- WaitGroup

type WaitGroup struct {
	n       int
	waiters wl
	id, g   uint32
}

//go:norace
func (w *WaitGroup) oid() uint32 { return vsim.ObjID(&w.g, &w.id) }

//go:norace
func (w *WaitGroup) Add(d int) {
	if !vsim.Active() {
		w.n += d
		return
	}
	vsim.Yield(vsim.OpWgAdd, w.oid())
	if d < 0 {
		vsim.ReleaseMerge(unsafe.Pointer(w))
	}
	w.n += d
	if w.n < 0 {
		panic("sync: negative WaitGroup counter")
	}
	if w.n == 0 {
		w.waiters.wakeAll()
	}
}

func (w *WaitGroup) Done() { w.Add(-1) }

//go:norace
func (w *WaitGroup) Wait() {
	if !vsim.Active() {
		return
	}
	vsim.Yield(vsim.OpWgWait, w.oid())
	if w.n > 0 {
		vsim.Probe(vsim.PWgBlocked)
	}
	for w.n > 0 {
		w.waiters.add(vsim.Cur())
		vsim.Block(vsim.OpWgWait, w.oid())
		if !vsim.Active() {
			return
		}
	}
	vsim.Acquire(unsafe.Pointer(w))
}

// ---------------------------------------------------------------- Once

type Once struct {
	state   int // 0 = not run, 1 = running, 2 = done
	waiters wl
	id, g   uint32
}

//go:norace
func (o *Once) oid() uint32 { return vsim.ObjID(&o.g, &o.id) }

//go:norace
func (o *Once) Do(f func()) {
	if !vsim.Active() {
		if o.state == 0 {
			o.state = 2
			f()
		}
		return
	}
	if o.state == 2 {
		// fast path of a completed Once: an acquire load that can never change
		// again. Not a scheduling point (the library calls it per pixel row).
		vsim.Acquire(unsafe.Pointer(o))
		return
	}
	vsim.Yield(vsim.OpOnce, o.oid())
	if o.state == 2 {
		vsim.Acquire(unsafe.Pointer(o))
		return
	}
	if o.state == 1 {
		vsim.Probe(vsim.POnceRace)
		for o.state == 1 {
			o.waiters.add(vsim.Cur())
			vsim.Block(vsim.OpOnce, o.oid())
			if !vsim.Active() {
				return
			}
		}
		vsim.Acquire(unsafe.Pointer(o))
		return
	}
	o.state = 1
	defer o.finish()
	f()
}

//go:norace
func (o *Once) finish() {
	vsim.Release(unsafe.Pointer(o))
	o.state = 2
	o.waiters.wakeAll()
}

// ---------------------------------------------------------------- Pool

const poolCap = 24

type Pool struct {
	New func() any

	items [poolCap]any
	owner [poolCap]int // task id that Put the item
	n     int
	g     uint32 // world generation this pool's content belongs to
	id    uint32
	idg   uint32
}

//go:norace
func (p *Pool) oid() uint32 { return vsim.ObjID(&p.idg, &p.id) }

// sync makes sure the pool belongs to the current world: every run starts with
// empty pools, so a run is a function of its seed only.
//
//go:norace
func (p *Pool) syncWorld() {
	w := vsim.W
	if p.g != w.Gen {
		p.g = w.Gen
		p.SimClear()
		vsim.RegisterPool(p)
	}
}

//go:norace
func (p *Pool) SimClear() {
	for i := 0; i < p.n; i++ {
		p.items[i] = nil
	}
	p.n = 0
}

//go:norace
func (p *Pool) Get() any {
	if vsim.Active() {
		vsim.Yield(vsim.OpPoolGet, p.oid())
		p.syncWorld()
		if vsim.PoolGC() {
			vsim.Probe(vsim.PPoolGC)
			vsim.ClearPools()
		}
		if p.n > 0 {
			if c := vsim.PoolGetChoice(p.n); c > 0 {
				i := c - 1
				x := p.items[i]
				if p.owner[i] != vsim.Cur().ID {
					vsim.Probe(vsim.PPoolCrossTask)
				}
				for j := i; j < p.n-1; j++ {
					p.items[j] = p.items[j+1]
					p.owner[j] = p.owner[j+1]
				}
				p.n--
				p.items[p.n] = nil
				vsim.Probe(vsim.PPoolHit)
				vsim.Acquire(poolRaceAddr(x))
				return x
			}
		}
		vsim.Probe(vsim.PPoolMiss)
	}
	if p.New != nil {
		return p.New()
	}
	return nil
}

//go:norace
func (p *Pool) Put(x any) {
	if x == nil {
		return
	}
	if !vsim.Active() {
		return
	}
	vsim.Yield(vsim.OpPoolPut, p.oid())
	p.syncWorld()
	if vsim.PoolPutDrop() {
		vsim.Probe(vsim.PPoolDrop)
		return
	}
	vsim.ReleaseMerge(poolRaceAddr(x))
	// The same object must never be in the pool twice: two later Gets would hand it
	// to two users at once. (Compared by identity of the pointer stored in the interface.)
	xp := (*[2]unsafe.Pointer)(unsafe.Pointer(&x))[1]
	for i := 0; i < p.n; i++ {
		it := p.items[i]
		if (*[2]unsafe.Pointer)(unsafe.Pointer(&it))[1] == xp && xp != nil {
			vsim.NoteDoublePut()
		}
	}
	if p.n == poolCap {
		// full: drop the oldest (the real pool drops at GC)
		for j := 0; j < p.n-1; j++ {
			p.items[j] = p.items[j+1]
			p.owner[j] = p.owner[j+1]
		}
		p.n--
	}
	p.items[p.n] = x
	p.owner[p.n] = vsim.Cur().ID
	p.n++
}

// poolRaceAddr mirrors sync.poolRaceAddr: the happens-before edge of a Put/Get
// pair is keyed on the item, hashed into a small table.
var poolRaceHash [128]uint64

//go:norace
func poolRaceAddr(x any) unsafe.Pointer {
	ptr := uintptr((*[2]unsafe.Pointer)(unsafe.Pointer(&x))[1])
	h := uint32((uint64(uint32(ptr)) * 0x85ebca6b) >> 16)
	return unsafe.Pointer(&poolRaceHash[h%uint32(len(poolRaceHash))])
}
