// Package satomic replaces sync/atomic in the rewritten library: every atomic
// operation is a scheduling point, and gives ThreadSanitizer the acquire/release
// edges of the real operation.
package satomic

import (
	"unsafe"

	"github.com/deepteams/webp/internal/vsim"
)

//go:norace
func pre(op uint8, obj uint32) {
	if vsim.W != nil {
		vsim.Yield(op, obj)
	}
}

// ---- typed values

type Int32 struct {
	v     int32
	id, g uint32
}

//go:norace
func (i *Int32) oid() uint32 { return vsim.ObjID(&i.g, &i.id) }

//go:norace
func (i *Int32) Load() int32 {
	pre(vsim.OpALoad, i.oid())
	vsim.Acquire(unsafe.Pointer(i))
	return i.v
}

//go:norace
func (i *Int32) Store(x int32) {
	pre(vsim.OpAStore, i.oid())
	vsim.Release(unsafe.Pointer(i))
	i.v = x
}

//go:norace
func (i *Int32) Add(d int32) int32 {
	pre(vsim.OpARMW, i.oid())
	vsim.Acquire(unsafe.Pointer(i))
	vsim.ReleaseMerge(unsafe.Pointer(i))
	i.v += d
	return i.v
}

//go:norace
func (i *Int32) Swap(x int32) int32 {
	pre(vsim.OpARMW, i.oid())
	vsim.Acquire(unsafe.Pointer(i))
	vsim.ReleaseMerge(unsafe.Pointer(i))
	o := i.v
	i.v = x
	return o
}

//go:norace
func (i *Int32) CompareAndSwap(old, new int32) bool {
	pre(vsim.OpARMW, i.oid())
	vsim.Acquire(unsafe.Pointer(i))
	vsim.ReleaseMerge(unsafe.Pointer(i))
	if i.v == old {
		i.v = new
		return true
	}
	return false
}

type Int64 struct {
	v     int64
	id, g uint32
}

//go:norace
func (i *Int64) oid() uint32 { return vsim.ObjID(&i.g, &i.id) }

//go:norace
func (i *Int64) Load() int64 {
	pre(vsim.OpALoad, i.oid())
	vsim.Acquire(unsafe.Pointer(i))
	return i.v
}

//go:norace
func (i *Int64) Store(x int64) {
	pre(vsim.OpAStore, i.oid())
	vsim.Release(unsafe.Pointer(i))
	i.v = x
}

//go:norace
func (i *Int64) Add(d int64) int64 {
	pre(vsim.OpARMW, i.oid())
	vsim.Acquire(unsafe.Pointer(i))
	vsim.ReleaseMerge(unsafe.Pointer(i))
	i.v += d
	return i.v
}

//go:norace
func (i *Int64) Swap(x int64) int64 {
	pre(vsim.OpARMW, i.oid())
	vsim.Acquire(unsafe.Pointer(i))
	vsim.ReleaseMerge(unsafe.Pointer(i))
	o := i.v
	i.v = x
	return o
}

//go:norace
func (i *Int64) CompareAndSwap(old, new int64) bool {
	pre(vsim.OpARMW, i.oid())
	vsim.Acquire(unsafe.Pointer(i))
	vsim.ReleaseMerge(unsafe.Pointer(i))
	if i.v == old {
		i.v = new
		return true
	}
	return false
}

type Uint32 struct {
	v     uint32
	id, g uint32
}

//go:norace
func (i *Uint32) oid() uint32 { return vsim.ObjID(&i.g, &i.id) }

//go:norace
func (i *Uint32) Load() uint32 {
	pre(vsim.OpALoad, i.oid())
	vsim.Acquire(unsafe.Pointer(i))
	return i.v
}

//go:norace
func (i *Uint32) Store(x uint32) {
	pre(vsim.OpAStore, i.oid())
	vsim.Release(unsafe.Pointer(i))
	i.v = x
}

//go:norace
func (i *Uint32) Add(d uint32) uint32 {
	pre(vsim.OpARMW, i.oid())
	vsim.Acquire(unsafe.Pointer(i))
	vsim.ReleaseMerge(unsafe.Pointer(i))
	i.v += d
	return i.v
}

//go:norace
func (i *Uint32) CompareAndSwap(old, new uint32) bool {
	pre(vsim.OpARMW, i.oid())
	vsim.Acquire(unsafe.Pointer(i))
	vsim.ReleaseMerge(unsafe.Pointer(i))
	if i.v == old {
		i.v = new
		return true
	}
	return false
}

type Uint64 struct {
	v     uint64
	id, g uint32
}

//go:norace
func (i *Uint64) oid() uint32 { return vsim.ObjID(&i.g, &i.id) }

//go:norace
func (i *Uint64) Load() uint64 {
	pre(vsim.OpALoad, i.oid())
	vsim.Acquire(unsafe.Pointer(i))
	return i.v
}

//go:norace
func (i *Uint64) Store(x uint64) {
	pre(vsim.OpAStore, i.oid())
	vsim.Release(unsafe.Pointer(i))
	i.v = x
}

//go:norace
func (i *Uint64) Add(d uint64) uint64 {
	pre(vsim.OpARMW, i.oid())
	vsim.Acquire(unsafe.Pointer(i))
	vsim.ReleaseMerge(unsafe.Pointer(i))
	i.v += d
	return i.v
}

//go:norace
func (i *Uint64) CompareAndSwap(old, new uint64) bool {
	pre(vsim.OpARMW, i.oid())
	vsim.Acquire(unsafe.Pointer(i))
	vsim.ReleaseMerge(unsafe.Pointer(i))
	if i.v == old {
		i.v = new
		return true
	}
	return false
}

type Bool struct {
	v     bool
	id, g uint32
}

//go:norace
func (i *Bool) oid() uint32 { return vsim.ObjID(&i.g, &i.id) }

//go:norace
func (i *Bool) Load() bool {
	pre(vsim.OpALoad, i.oid())
	vsim.Acquire(unsafe.Pointer(i))
	return i.v
}

//go:norace
func (i *Bool) Store(x bool) {
	pre(vsim.OpAStore, i.oid())
	vsim.Release(unsafe.Pointer(i))
	i.v = x
}

//go:norace
func (i *Bool) Swap(x bool) bool {
	pre(vsim.OpARMW, i.oid())
	vsim.Acquire(unsafe.Pointer(i))
	vsim.ReleaseMerge(unsafe.Pointer(i))
	o := i.v
	i.v = x
	return o
}

//go:norace
func (i *Bool) CompareAndSwap(old, new bool) bool {
	pre(vsim.OpARMW, i.oid())
	vsim.Acquire(unsafe.Pointer(i))
	vsim.ReleaseMerge(unsafe.Pointer(i))
	if i.v == old {
		i.v = new
		return true
	}
	return false
}

type Pointer[T any] struct {
	v     *T
	id, g uint32
}

//go:norace
func (i *Pointer[T]) oid() uint32 { return vsim.ObjID(&i.g, &i.id) }

//go:norace
func (i *Pointer[T]) Load() *T {
	pre(vsim.OpALoad, i.oid())
	vsim.Acquire(unsafe.Pointer(i))
	return i.v
}

//go:norace
func (i *Pointer[T]) Store(x *T) {
	pre(vsim.OpAStore, i.oid())
	vsim.Release(unsafe.Pointer(i))
	i.v = x
}

//go:norace
func (i *Pointer[T]) Swap(x *T) *T {
	pre(vsim.OpARMW, i.oid())
	vsim.Acquire(unsafe.Pointer(i))
	vsim.ReleaseMerge(unsafe.Pointer(i))
	o := i.v
	i.v = x
	return o
}

//go:norace
func (i *Pointer[T]) CompareAndSwap(old, new *T) bool {
	pre(vsim.OpARMW, i.oid())
	vsim.Acquire(unsafe.Pointer(i))
	vsim.ReleaseMerge(unsafe.Pointer(i))
	if i.v == old {
		i.v = new
		return true
	}
	return false
}

// ---- functions on plain words (no inline object id available: id 0)

//go:norace
func AddInt32(p *int32, d int32) int32 {
	pre(vsim.OpARMW, 0)
	vsim.Acquire(unsafe.Pointer(p))
	vsim.ReleaseMerge(unsafe.Pointer(p))
	*p += d
	return *p
}

//go:norace
func AddInt64(p *int64, d int64) int64 {
	pre(vsim.OpARMW, 0)
	vsim.Acquire(unsafe.Pointer(p))
	vsim.ReleaseMerge(unsafe.Pointer(p))
	*p += d
	return *p
}

//go:norace
func AddUint32(p *uint32, d uint32) uint32 {
	pre(vsim.OpARMW, 0)
	vsim.Acquire(unsafe.Pointer(p))
	vsim.ReleaseMerge(unsafe.Pointer(p))
	*p += d
	return *p
}

//go:norace
func AddUint64(p *uint64, d uint64) uint64 {
	pre(vsim.OpARMW, 0)
	vsim.Acquire(unsafe.Pointer(p))
	vsim.ReleaseMerge(unsafe.Pointer(p))
	*p += d
	return *p
}

//go:norace
func LoadInt32(p *int32) int32 {
	pre(vsim.OpALoad, 0)
	vsim.Acquire(unsafe.Pointer(p))
	return *p
}

//go:norace
func LoadInt64(p *int64) int64 {
	pre(vsim.OpALoad, 0)
	vsim.Acquire(unsafe.Pointer(p))
	return *p
}

//go:norace
func LoadUint32(p *uint32) uint32 {
	pre(vsim.OpALoad, 0)
	vsim.Acquire(unsafe.Pointer(p))
	return *p
}

//go:norace
func LoadUint64(p *uint64) uint64 {
	pre(vsim.OpALoad, 0)
	vsim.Acquire(unsafe.Pointer(p))
	return *p
}

//go:norace
func StoreInt32(p *int32, x int32) {
	pre(vsim.OpAStore, 0)
	vsim.Release(unsafe.Pointer(p))
	*p = x
}

//go:norace
func StoreInt64(p *int64, x int64) {
	pre(vsim.OpAStore, 0)
	vsim.Release(unsafe.Pointer(p))
	*p = x
}

//go:norace
func StoreUint32(p *uint32, x uint32) {
	pre(vsim.OpAStore, 0)
	vsim.Release(unsafe.Pointer(p))
	*p = x
}

//go:norace
func StoreUint64(p *uint64, x uint64) {
	pre(vsim.OpAStore, 0)
	vsim.Release(unsafe.Pointer(p))
	*p = x
}

//go:norace
func CompareAndSwapInt32(p *int32, old, new int32) bool {
	pre(vsim.OpARMW, 0)
	vsim.Acquire(unsafe.Pointer(p))
	vsim.ReleaseMerge(unsafe.Pointer(p))
	if *p == old {
		*p = new
		return true
	}
	return false
}

//go:norace
func CompareAndSwapInt64(p *int64, old, new int64) bool {
	pre(vsim.OpARMW, 0)
	vsim.Acquire(unsafe.Pointer(p))
	vsim.ReleaseMerge(unsafe.Pointer(p))
	if *p == old {
		*p = new
		return true
	}
	return false
}

//go:norace
func CompareAndSwapUint32(p *uint32, old, new uint32) bool {
	pre(vsim.OpARMW, 0)
	vsim.Acquire(unsafe.Pointer(p))
	vsim.ReleaseMerge(unsafe.Pointer(p))
	if *p == old {
		*p = new
		return true
	}
	return false
}

//go:norace
func CompareAndSwapUint64(p *uint64, old, new uint64) bool {
	pre(vsim.OpARMW, 0)
	vsim.Acquire(unsafe.Pointer(p))
	vsim.ReleaseMerge(unsafe.Pointer(p))
	if *p == old {
		*p = new
		return true
	}
	return false
}
