// Package vsim is the deterministic cooperative scheduler under which the real
// deepteams/webp code runs after the simgen rewrite. Real goroutines, but exactly
// one runs at any instant; every simulated synchronisation operation is a
// scheduling point; every choice the Go runtime would make is a PRNG (or replayed)
// decision.
//
// Implementation rule (see DESIGN.md 2.4): state shared between tasks is touched
// only from //go:norace functions and only with plain loads/stores on fixed arrays
// (no append/copy/map: those runtime helpers stay race-instrumented).
package vsim

import (
	"fmt"
	"runtime/debug"
)

const (
	MaxTasks     = 256 // simultaneously live tasks
	MaxDecisions = 1 << 19
	MaxPools     = 64
	MaxSites     = 32
)

// Task states.
const (
	stRunnable = 0
	stBlocked  = 1
	stDone     = 2
	stNew      = 3 // spawned, goroutine not yet past Enter: runnable
)

// Decision kinds.
const (
	DSched   = 1 // which task runs next; value = task id, or DefaultChoice
	DWake    = 2 // which waiter gets a released mutex / Signal
	DPoolGet = 3 // 0 = miss, i>0 = item i-1
	DPoolPut = 4 // 0 = keep, 1 = drop
	DGC      = 5 // 0 = nothing, 1 = all pools emptied
	DFault   = 6 // harness-defined (I/O faults); 0 = no fault
	DDeliver = 7 // harness-defined (reader chunk sizes etc.)
)

const DefaultChoice = 0xFFFF

// Policies.
const (
	PolCanonical = 0
	PolUniform   = 1
	PolSticky    = 2
	PolPCT       = 3
	PolRoundRob  = 4
	PolDelay     = 5
)

var PolicyNames = []string{"canonical", "uniform", "sticky", "pct", "roundrobin", "delaybounded"}

// Blocking reasons / op kinds used in traces.
const (
	OpLock = iota + 1
	OpUnlock
	OpCondWait
	OpCondWake
	OpSignal
	OpBroadcast
	OpWgAdd
	OpWgWait
	OpOnce
	OpPoolGet
	OpPoolPut
	OpALoad
	OpAStore
	OpARMW
	OpSpawn
	OpExit
	OpProcs
	OpChanSend
	OpChanRecv
	OpChanClose
	OpIO
	OpJoin
	OpRLock
	OpRUnlock
	OpUser
)

var OpNames = []string{"?", "lock", "unlock", "condwait", "condwake", "signal", "broadcast", "wgadd", "wgwait", "once", "poolget", "poolput", "aload", "astore", "armw", "spawn", "exit", "procs", "chansend", "chanrecv", "chanclose", "io", "join", "rlock", "runlock", "user"}

// Probes: cheap reach counters.
const (
	PCondSlow       = iota // Cond.Wait entered
	PCondWoken             // waiter woken by Broadcast/Signal
	PMutexContended        // Lock found the mutex held
	PPoolHit
	PPoolMiss
	PPoolCrossTask // Get returned an object Put by another task
	PPoolDrop
	PPoolGC
	PWgBlocked   // Wait actually blocked
	PChanBlocked // Recv blocked on empty channel
	PPreempt     // scheduler switched away from a runnable task
	POnceRace    // Do called while another Do running
	NProbes
)

var ProbeNames = []string{"cond_slow_path", "cond_woken", "mutex_contended", "pool_hit", "pool_miss", "pool_cross_task_hit", "pool_drop", "pool_gc", "wg_wait_blocked", "chan_recv_blocked", "preemptions", "once_contended"}

type Decision struct {
	Kind uint8
	N    uint16
	V    uint16
}

type Config struct {
	Seed       uint64 // scheduling stream seed
	Policy     int
	StickyPct  int // PolSticky: continue current with this probability
	PCTDepth   int // PolPCT: number of priority change points
	PCTLen     int // PolPCT: change points are drawn in [0,PCTLen)
	DelayK     int // PolDelay: number of random preemptions
	DelayLen   int
	Procs      int // uniform worker count offered at every site
	PoolHitPct int // probability that Get returns a pooled object when one exists
	PoolDropPm int // per-mille probability that Put drops the object
	PoolGCPm   int // per-mille probability, at each Get, that all pools are emptied first
	MaxSteps   int
	// RandomPools: pool decisions are drawn even under the canonical scheduling policy.
	RandomPools bool
	// ForcePoolMiss makes every Pool.Get miss (attribution of a difference to pool reuse).
	ForcePoolMiss bool
	// SiteProcs overrides Procs for individual sites (attribution only).
	SiteProcs map[string]int
}

type Task struct {
	ID     int
	Next   *Task // intrusive waiter-list link (a task waits on one object at a time)
	wake   chan struct{}
	state  int32
	prio   int
	onOp   uint8
	onObj  uint32
	Client int // harness label (-1 = library worker)
}

type PanicRec struct {
	Task  int
	Val   string
	Stack string
}

type SiteStat struct {
	Name  string
	Hits  int
	Multi int // hits where the returned worker count was > 1
}

type clearer interface{ SimClear() }

type World struct {
	Cfg  Config
	Gen  uint32
	ids  uint32
	rng  uint64
	cur  *Task
	root *Task

	tasks  [MaxTasks]*Task // live (not yet exited) tasks, ascending id
	ntasks int             // number of live tasks
	nextID int             // total tasks created

	Steps int    // scheduling points passed
	Multi int    // scheduling points with >= 2 runnable tasks
	Hash  uint64 // hash of the <task, op, object> sequence

	rec        []Decision
	nrec       int
	RecOverrun bool
	replay     []Decision
	rpos       int
	replayMode int // 0 = none, 1 = lenient (minimisation), 2 = strict
	Diverged   string

	Aborted     bool
	AbortReason string // "deadlock", "steps", "diverged", "tasks"
	Deadlock    string // description of blocked tasks when AbortReason == "deadlock"
	Panics      [8]PanicRec
	NPanics     int

	Probes [NProbes]int64
	DoublePuts int // an object was Put into a pool that already held it
	OpCount [32]int64
	Sites  [MaxSites]SiteStat
	nsites int

	pools  [MaxPools]clearer
	npools int

	pctChange [8]int
	delayAt   [16]int
	rrLast    int

	rootJoin bool // root finished its body and waits for all other tasks
}

type abortSentinel struct{}

// W is the active world (nil outside World.Run).
var W *World

var gen uint32

var recBuf []Decision

//go:norace
func (w *World) next() uint64 {
	w.rng += 0x9e3779b97f4a7c15
	z := w.rng
	z = (z ^ (z >> 30)) * 0xbf58476d1ce4e5b9
	z = (z ^ (z >> 27)) * 0x94d049bb133111eb
	return z ^ (z >> 31)
}

//go:norace
func (w *World) intn(n int) int { return int(w.next() % uint64(n)) }

// NewWorld creates a world. replay may be nil; mode 1 = lenient, 2 = strict.
func NewWorld(cfg Config, replay []Decision, mode int) *World {
	gen++
	if cfg.MaxSteps <= 0 {
		cfg.MaxSteps = 3000000
	}
	if cfg.Procs <= 0 {
		cfg.Procs = 1
	}
	if recBuf == nil {
		recBuf = make([]Decision, MaxDecisions)
	}
	// one world runs at a time: the decision buffer is reused (Decisions() copies)
	w := &World{Cfg: cfg, Gen: gen, rng: cfg.Seed, rec: recBuf}
	w.Hash = 14695981039346656037
	if replay != nil {
		w.replay = replay
		w.replayMode = mode
	}
	if cfg.Policy == PolPCT {
		n := cfg.PCTLen
		if n <= 0 {
			n = 500
		}
		for i := 0; i < cfg.PCTDepth && i < len(w.pctChange); i++ {
			w.pctChange[i] = 1 + w.intn(n)
		}
	}
	if cfg.Policy == PolDelay {
		n := cfg.DelayLen
		if n <= 0 {
			n = 500
		}
		for i := 0; i < cfg.DelayK && i < len(w.delayAt); i++ {
			w.delayAt[i] = 1 + w.intn(n)
		}
	}
	return w
}

// Decisions returns a copy of the recorded decision list.
func (w *World) Decisions() []Decision {
	out := make([]Decision, w.nrec)
	copy(out, w.rec[:w.nrec])
	return out
}

func (w *World) NTasks() int { return w.nextID }

//go:norace
func (w *World) note(t *Task, op uint8, obj uint32) {
	h := w.Hash
	h = (h ^ uint64(t.ID)) * 1099511628211
	h = (h ^ uint64(op)) * 1099511628211
	h = (h ^ uint64(obj)) * 1099511628211
	w.Hash = h
}

//go:norace
func (w *World) record(kind uint8, n, v int) {
	if w.nrec < len(w.rec) {
		w.rec[w.nrec] = Decision{kind, uint16(n), uint16(v)}
		w.nrec++
	} else {
		w.RecOverrun = true
	}
}

// replayNext returns (value, true) if a replayed decision applies.
//
//go:norace
func (w *World) replayNext(kind uint8, n int) (int, bool) {
	if w.replayMode == 0 {
		return 0, false
	}
	if w.rpos >= len(w.replay) {
		if w.replayMode == 2 {
			w.Diverged = "decision list exhausted"
		}
		return DefaultChoice, true
	}
	d := w.replay[w.rpos]
	w.rpos++
	if d.Kind != kind || int(d.N) != n {
		if w.replayMode == 2 {
			w.Diverged = "decision kind/arity mismatch"
		}
		return DefaultChoice, true
	}
	return int(d.V), true
}

// choose handles a non-scheduling decision among n alternatives; def is the
// canonical choice. It returns -1 when the caller must draw the value itself.
// Fault and delivery decisions are workload, not schedule: they are drawn even
// under the canonical scheduling policy (the harness decides whether to ask).
//
//go:norace
func (w *World) choose(kind uint8, n int, def int) int {
	if rv, ok := w.replayNext(kind, n); ok {
		if rv == DefaultChoice {
			return def
		}
		if rv < n {
			return rv
		}
		if w.replayMode == 2 {
			w.Diverged = "decision value out of range"
		}
		return def
	}
	if w.Cfg.Policy == PolCanonical && kind != DFault && kind != DDeliver {
		if !(w.Cfg.RandomPools && (kind == DPoolGet || kind == DPoolPut || kind == DGC)) {
			return def
		}
	}
	return -1
}

// ChooseIdx: public decision helper for harness seams (faults, delivery sizes).
// Returns a value in [0,n). In canonical/no-replay mode draws uniformly with the
// world's generator unless n <= 1.
//
//go:norace
func ChooseIdx(kind uint8, n int, def int) int {
	w := W
	if w == nil || n <= 1 {
		return def
	}
	v := w.choose(kind, n, def)
	if v < 0 {
		v = w.intn(n)
	}
	w.record(kind, n, v)
	return v
}

// ChooseBiased: returns 1 with probability pm/1000 else 0 (default 0).
//
//go:norace
func ChooseBiased(kind uint8, pm int) int {
	w := W
	if w == nil {
		return 0
	}
	v := w.choose(kind, 2, 0)
	if v < 0 {
		v = 0
		if w.intn(1000) < pm {
			v = 1
		}
	}
	w.record(kind, 2, v)
	return v
}

// Run executes body as task 0 and returns when every task is done, or the world
// was aborted (deadlock, step budget, divergence).
//
//go:norace
func (w *World) Run(body func()) {
	if W != nil {
		panic("vsim: nested worlds")
	}
	W = w
	root := &Task{ID: 0, wake: make(chan struct{}, 1), Client: 0}
	root.prio = 1000 + w.intn(1000)
	w.tasks[0] = root
	w.ntasks = 1
	w.nextID = 1
	w.cur = root
	w.root = root
	func() {
		defer func() {
			if r := recover(); r != nil {
				if _, ok := r.(abortSentinel); ok {
					return
				}
				w.addPanic(0, r)
			}
		}()
		body()
	}()
	if !w.Aborted {
		// join: wait for every other task
		w.rootJoin = true
		if w.liveOthers() {
			root.state = stBlocked
			root.onOp = OpJoin
			w.note(root, OpJoin, 0)
			nx := w.pick(false)
			if nx == nil {
				w.abort("deadlock")
			} else {
				w.switchTo(root, nx)
			}
		}
	}
	root.state = stDone
	W = nil
	// the decision buffer is shared between worlds: keep a private copy of what
	// this world recorded
	w.rec = append([]Decision(nil), w.rec[:w.nrec]...)
}

//go:norace
func (w *World) liveOthers() bool {
	for i := 0; i < w.ntasks; i++ {
		if w.tasks[i] != w.root && w.tasks[i].state != stDone {
			return true
		}
	}
	return false
}

// retire removes an exited task from the live list (order preserved).
//
//go:norace
func (w *World) retire(t *Task) {
	for i := 0; i < w.ntasks; i++ {
		if w.tasks[i] == t {
			for j := i; j < w.ntasks-1; j++ {
				w.tasks[j] = w.tasks[j+1]
			}
			w.ntasks--
			w.tasks[w.ntasks] = nil
			return
		}
	}
}

func (w *World) addPanic(task int, r any) {
	if w.NPanics < len(w.Panics) {
		w.Panics[w.NPanics] = PanicRec{Task: task, Val: fmt.Sprint(r), Stack: string(debug.Stack())}
		w.NPanics++
	}
}

// abort marks the world aborted and, when called from a non-root task, wakes the
// root so it can unwind; the calling non-root task then parks forever.
//
//go:norace
func (w *World) abort(reason string) {
	if w.Aborted {
		return
	}
	w.Aborted = true
	w.AbortReason = reason
	if reason == "deadlock" {
		w.Deadlock = w.describeBlocked()
	}
}

func (w *World) describeBlocked() string {
	s := ""
	for i := 0; i < w.ntasks; i++ {
		t := w.tasks[i]
		if t.state == stBlocked {
			if s != "" {
				s += "; "
			}
			s += fmt.Sprintf("task %d blocked in %s on object #%d", t.ID, OpNames[t.onOp], t.onObj)
		}
	}
	return s
}

// afterAbort is called by the task that detected the abort condition.
//
//go:norace
func (w *World) afterAbort(cur *Task) {
	if cur == w.root {
		if w.rootJoin {
			return
		}
		panic(abortSentinel{})
	}
	// wake root, park forever
	raceDisable()
	w.cur = w.root
	w.root.wake <- struct{}{}
	select {}
}

// pick chooses the next task to run. includeCur: the current task is runnable and
// may continue.
//
//go:norace
func (w *World) pick(includeCur bool) *Task {
	n := 0
	var first, best, rrNext *Task
	for i := 0; i < w.ntasks; i++ {
		t := w.tasks[i]
		if t.state == stRunnable || t.state == stNew {
			if t == w.cur && !includeCur {
				continue
			}
			if n == 0 {
				first = t
			}
			if best == nil || t.prio > best.prio {
				best = t
			}
			if rrNext == nil && t.ID > w.rrLast {
				rrNext = t
			}
			n++
		}
	}
	if n == 0 {
		return nil
	}
	w.Steps++
	if n == 1 {
		return first
	}
	w.Multi++
	// canonical default
	def := first
	if includeCur && w.cur.state == stRunnable {
		def = w.cur
	}
	var ch *Task
	if rv, ok := w.replayNext(DSched, n); ok {
		ch = def
		if rv != DefaultChoice {
			if t := w.byID(rv, includeCur); t != nil {
				ch = t
			} else if w.replayMode == 2 {
				w.Diverged = "scheduled task not runnable"
			}
		}
	} else {
		switch w.Cfg.Policy {
		case PolCanonical:
			ch = def
		case PolUniform:
			ch = w.kth(w.intn(n), includeCur)
		case PolSticky:
			if def == w.cur && w.intn(100) < w.Cfg.StickyPct {
				ch = def
			} else {
				ch = w.kth(w.intn(n), includeCur)
			}
		case PolPCT:
			for i := 0; i < w.Cfg.PCTDepth && i < len(w.pctChange); i++ {
				if w.pctChange[i] == w.Steps && includeCur {
					w.cur.prio = -w.Steps
					// recompute best
					best = nil
					for j := 0; j < w.ntasks; j++ {
						t := w.tasks[j]
						if (t.state == stRunnable || t.state == stNew) && (best == nil || t.prio > best.prio) {
							best = t
						}
					}
				}
			}
			ch = best
		case PolRoundRob:
			ch = rrNext
			if ch == nil {
				ch = first
			}
			w.rrLast = ch.ID
		case PolDelay:
			ch = def
			for i := 0; i < w.Cfg.DelayK && i < len(w.delayAt); i++ {
				if w.delayAt[i] == w.Steps {
					ch = w.kth(w.intn(n), includeCur)
				}
			}
		default:
			ch = def
		}
	}
	w.record(DSched, n, ch.ID&0x7fff)
	if includeCur && ch != w.cur {
		w.Probes[PPreempt]++
	}
	return ch
}

//go:norace
func (w *World) kth(k int, includeCur bool) *Task {
	var first *Task
	for i := 0; i < w.ntasks; i++ {
		t := w.tasks[i]
		if t.state == stRunnable || t.state == stNew {
			if t == w.cur && !includeCur {
				continue
			}
			if first == nil {
				first = t
			}
			if k == 0 {
				return t
			}
			k--
		}
	}
	return first
}

//go:norace
func (w *World) byID(id int, includeCur bool) *Task {
	for i := 0; i < w.ntasks; i++ {
		t := w.tasks[i]
		if t.ID&0x7fff == id && (t.state == stRunnable || t.state == stNew) && (t != w.cur || includeCur) {
			return t
		}
	}
	return nil
}

//go:norace
func (w *World) switchTo(cur, nx *Task) {
	w.cur = nx
	raceDisable()
	nx.wake <- struct{}{}
	<-cur.wake
	raceEnable()
	if w.Aborted {
		// only the root is ever woken after an abort
		if w.rootJoin {
			return
		}
		panic(abortSentinel{})
	}
}

//go:norace
func (w *World) checkBudget(cur *Task) bool {
	if w.Steps > w.Cfg.MaxSteps {
		w.abort("steps")
		w.afterAbort(cur)
		return true
	}
	if w.Diverged != "" {
		w.abort("diverged")
		w.afterAbort(cur)
		return true
	}
	return false
}

// Active reports whether simulated primitives must go through the scheduler.
//
//go:norace
func Active() bool {
	w := W
	if w == nil {
		panic("vsim: simulated primitive used outside a world")
	}
	return !w.Aborted
}

// Yield is a scheduling point at which the current task stays runnable.
//
//go:norace
func Yield(op uint8, obj uint32) {
	w := W
	if w == nil || w.Aborted {
		return
	}
	cur := w.cur
	w.note(cur, op, obj)
	w.OpCount[op&31]++
	if w.checkBudget(cur) {
		return
	}
	nx := w.pick(true)
	if nx != cur {
		w.switchTo(cur, nx)
	}
}

// Block parks the current task (already registered as a waiter by the caller)
// until another task calls Unblock on it.
//
//go:norace
func Block(op uint8, obj uint32) {
	w := W
	cur := w.cur
	cur.state = stBlocked
	cur.onOp = op
	cur.onObj = obj
	w.note(cur, op+100, obj)
	nx := w.pick(false)
	if nx == nil {
		w.abort("deadlock")
		w.afterAbort(cur)
		return
	}
	w.switchTo(cur, nx)
}

//go:norace
func Unblock(t *Task) {
	if t.state == stBlocked {
		t.state = stRunnable
	}
}

//go:norace
func Cur() *Task { return W.cur }

//go:norace
func Probe(i int) {
	if w := W; w != nil {
		w.Probes[i]++
	}
}

// Spawn registers a new task; the goroutine that will run it must call Enter
// first and defer Exit.
//
//go:norace
func Spawn() *Task {
	w := W
	if w == nil {
		panic("vsim: go statement outside a world")
	}
	if w.Aborted {
		return nil
	}
	if w.ntasks >= MaxTasks {
		w.abort("tasks")
		w.afterAbort(w.cur)
		return nil
	}
	t := &Task{ID: w.nextID, wake: make(chan struct{}, 1), state: stNew, Client: -1}
	w.nextID++
	t.prio = 1000 + w.intn(1000)
	w.tasks[w.ntasks] = t
	w.ntasks++
	w.note(w.cur, OpSpawn, uint32(t.ID))
	return t
}

//go:norace
func Enter(t *Task) {
	if t == nil {
		// world aborted at spawn time: never run the body
		select {}
	}
	raceDisable()
	<-t.wake
	raceEnable()
	t.state = stRunnable
}

// Exit must be deferred right after Enter. It records a panic in the task (the
// real program would have crashed) and hands the processor to another task.
//
//go:norace
func Exit(t *Task) {
	w := W
	if r := recover(); r != nil {
		if _, ok := r.(abortSentinel); !ok && w != nil {
			w.addPanic(t.ID, r)
		}
	}
	if w == nil || w.Aborted {
		select {}
	}
	t.state = stDone
	w.note(t, OpExit, 0)
	w.retire(t)
	if w.rootJoin && !w.liveOthers() {
		Unblock(w.root)
	}
	nx := w.pick(false)
	if nx == nil {
		// nothing runnable: every task done is impossible here (root would be
		// runnable), so this is a deadlock.
		w.abort("deadlock")
		raceDisable()
		w.cur = w.root
		w.root.wake <- struct{}{}
		raceEnable()
		return
	}
	w.cur = nx
	raceDisable()
	nx.wake <- struct{}{}
	raceEnable()
}

// Go runs f as a new simulated task (used by the harness for client tasks).
func Go(client int, f func()) {
	t := Spawn()
	if t != nil {
		t.Client = client
	}
	go func() {
		Enter(t)
		defer Exit(t)
		f()
	}()
}

// Procs replaces runtime.GOMAXPROCS(0).
//
//go:norace
func Procs(site string) int {
	w := W
	if w == nil {
		panic("vsim: worker-count read outside a world")
	}
	n := w.Cfg.Procs
	if w.Cfg.SiteProcs != nil {
		if v, ok := w.Cfg.SiteProcs[site]; ok {
			n = v
		}
	}
	idx := -1
	for i := 0; i < w.nsites; i++ {
		if w.Sites[i].Name == site {
			idx = i
			break
		}
	}
	if idx < 0 && w.nsites < MaxSites {
		idx = w.nsites
		w.Sites[idx].Name = site
		w.nsites++
	}
	if idx >= 0 {
		w.Sites[idx].Hits++
		if n > 1 {
			w.Sites[idx].Multi++
		}
	}
	Yield(OpProcs, uint32(idx+1))
	return n
}

func (w *World) SiteStats() []SiteStat { return w.Sites[:w.nsites] }

// ObjID returns a per-world creation-order id for an object that stores (g,id)
// inline.
//
//go:norace
func ObjID(g, id *uint32) uint32 {
	w := W
	if w == nil {
		return 0
	}
	if *g != w.Gen {
		*g = w.Gen
		w.ids++
		*id = w.ids
	}
	return *id
}

// RegisterPool adds a pool to the world's registry (for simulated GC).
//
//go:norace
func RegisterPool(p clearer) {
	w := W
	if w == nil {
		return
	}
	if w.npools < MaxPools {
		w.pools[w.npools] = p
		w.npools++
	}
}

//go:norace
func ClearPools() {
	w := W
	if w == nil {
		return
	}
	for i := 0; i < w.npools; i++ {
		w.pools[i].SimClear()
	}
}

// Wake decision among n waiters (mutex hand-off, Signal).
//
//go:norace
func ChooseWaiter(n int) int {
	w := W
	if n <= 1 {
		return 0
	}
	v := w.choose(DWake, n, 0)
	if v < 0 {
		v = w.intn(n)
	}
	w.record(DWake, n, v)
	return v
}

// PoolGetChoice: n pooled items exist; returns 0 for a miss or i in 1..n.
//
//go:norace
func PoolGetChoice(n int) int {
	w := W
	v := w.choose(DPoolGet, n+1, 0)
	if v < 0 {
		v = 0
		if w.intn(100) < w.Cfg.PoolHitPct {
			v = 1 + w.intn(n)
		}
	}
	if w.Cfg.ForcePoolMiss {
		v = 0
	}
	w.record(DPoolGet, n+1, v)
	return v
}

//go:norace
func PoolPutDrop() bool {
	w := W
	if w.Cfg.PoolDropPm == 0 {
		return false
	}
	return ChooseBiased(DPoolPut, w.Cfg.PoolDropPm) == 1
}

//go:norace
func PoolGC() bool {
	w := W
	if w.Cfg.PoolGCPm == 0 {
		return false
	}
	return ChooseBiased(DGC, w.Cfg.PoolGCPm) == 1
}

//go:norace
func NoteDoublePut() {
	if w := W; w != nil {
		w.DoublePuts++
	}
}
