//go:build race

package vsim

import (
	"runtime"
	"unsafe"
)

const RaceEnabled = true

func raceDisable()                  { runtime.RaceDisable() }
func raceEnable()                   { runtime.RaceEnable() }
func Acquire(p unsafe.Pointer)      { runtime.RaceAcquire(p) }
func Release(p unsafe.Pointer)      { runtime.RaceRelease(p) }
func ReleaseMerge(p unsafe.Pointer) { runtime.RaceReleaseMerge(p) }
