//go:build !race

package vsim

import "unsafe"

const RaceEnabled = false

func raceDisable()                  {}
func raceEnable()                   {}
func Acquire(p unsafe.Pointer)      {}
func Release(p unsafe.Pointer)      {}
func ReleaseMerge(p unsafe.Pointer) {}
