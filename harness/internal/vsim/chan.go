package vsim

import "unsafe"

// Chan is the simulated channel that replaces `make(chan T, n)` in the rewritten
// library. Blocking is a simulator state; the happens-before edges given to the
// race detector are those of real channels (per-slot acquire+release on send and
// receive, release on close / acquire on receive-from-closed).
type Chan[T any] struct {
	buf      []T
	syn      []byte // one sync address per slot, plus one for close
	capacity int
	head     int
	n        int
	closed   bool
	sent     int // unbuffered: values placed
	recvd    int // unbuffered: values taken
	recvq    [64]*Task
	nrecv    int
	sendq    [64]*Task
	nsend    int
	id, g    uint32
}

func NewChan[T any](capacity int) *Chan[T] {
	if capacity < 0 {
		panic("makechan: size out of range")
	}
	k := capacity
	if k == 0 {
		k = 1
	}
	return &Chan[T]{buf: make([]T, k), syn: make([]byte, k+1), capacity: capacity}
}

//go:norace
func (c *Chan[T]) oid() uint32 { return ObjID(&c.g, &c.id) }

//go:norace
func (c *Chan[T]) wakeRecv() {
	for i := 0; i < c.nrecv; i++ {
		Unblock(c.recvq[i])
		c.recvq[i] = nil
	}
	c.nrecv = 0
}

//go:norace
func (c *Chan[T]) wakeSend() {
	for i := 0; i < c.nsend; i++ {
		Unblock(c.sendq[i])
		c.sendq[i] = nil
	}
	c.nsend = 0
}

//go:norace
func (c *Chan[T]) slotSync(i int) unsafe.Pointer { return unsafe.Pointer(&c.syn[i]) }

//go:norace
func (c *Chan[T]) Len() int {
	if c.capacity == 0 {
		return 0
	}
	return c.n
}

func (c *Chan[T]) Cap() int { return c.capacity }

//go:norace
func (c *Chan[T]) Send(v T) {
	if !Active() {
		return
	}
	Yield(OpChanSend, c.oid())
	if c.closed {
		panic("send on closed channel")
	}
	if c.capacity > 0 {
		for c.n == c.capacity {
			c.sendq[c.nsend] = Cur()
			c.nsend++
			Block(OpChanSend, c.oid())
			if !Active() {
				return
			}
			if c.closed {
				panic("send on closed channel")
			}
		}
		i := (c.head + c.n) % c.capacity
		Acquire(c.slotSync(i))
		c.buf[i] = v
		Release(c.slotSync(i))
		c.n++
		c.wakeRecv()
		return
	}
	// unbuffered rendezvous
	for c.n == 1 {
		c.sendq[c.nsend] = Cur()
		c.nsend++
		Block(OpChanSend, c.oid())
		if !Active() {
			return
		}
		if c.closed {
			panic("send on closed channel")
		}
	}
	c.buf[0] = v
	Release(c.slotSync(0))
	c.n = 1
	c.sent++
	want := c.sent
	c.wakeRecv()
	for c.recvd < want {
		c.sendq[c.nsend] = Cur()
		c.nsend++
		Block(OpChanSend, c.oid())
		if !Active() {
			return
		}
	}
	Acquire(c.slotSync(0))
}

//go:norace
func (c *Chan[T]) Recv2() (T, bool) {
	var zero T
	if !Active() {
		return zero, false
	}
	Yield(OpChanRecv, c.oid())
	for c.n == 0 && !c.closed {
		Probe(PChanBlocked)
		c.recvq[c.nrecv] = Cur()
		c.nrecv++
		Block(OpChanRecv, c.oid())
		if !Active() {
			return zero, false
		}
	}
	if c.n > 0 {
		i := c.head
		if c.capacity == 0 {
			i = 0
		}
		Acquire(c.slotSync(i))
		v := c.buf[i]
		c.buf[i] = zero
		Release(c.slotSync(i))
		if c.capacity > 0 {
			c.head = (c.head + 1) % c.capacity
		} else {
			c.recvd++
		}
		c.n--
		c.wakeSend()
		return v, true
	}
	Acquire(c.slotSync(len(c.syn) - 1))
	return zero, false
}

func (c *Chan[T]) Recv() T {
	v, _ := c.Recv2()
	return v
}

//go:norace
func (c *Chan[T]) Close() {
	if !Active() {
		return
	}
	Yield(OpChanClose, c.oid())
	if c.closed {
		panic("close of closed channel")
	}
	Release(c.slotSync(len(c.syn) - 1))
	c.closed = true
	c.wakeRecv()
	c.wakeSend()
}
