package verifh

import (
	"fmt"
	"strings"

	"github.com/deepteams/webp/internal/vsim"
	"github.com/deepteams/webp/internal/vsim/ssync"
)

// SchedSpec is the JSON form of the simulator configuration of a run.
type SchedSpec struct {
	Seed       uint64 `json:"seed"`
	Policy     int    `json:"policy"`
	StickyPct  int    `json:"sticky_pct,omitempty"`
	PCTDepth   int    `json:"pct_depth,omitempty"`
	PCTLen     int    `json:"pct_len,omitempty"`
	DelayK     int    `json:"delay_k,omitempty"`
	DelayLen   int    `json:"delay_len,omitempty"`
	Procs      int    `json:"procs"`
	PoolHitPct int    `json:"pool_hit_pct"`
	PoolDropPm int    `json:"pool_drop_pm,omitempty"`
	PoolGCPm   int    `json:"pool_gc_pm,omitempty"`
	RandomPools bool  `json:"random_pools,omitempty"`
}

func (s SchedSpec) Config() vsim.Config {
	return vsim.Config{Seed: s.Seed, Policy: s.Policy, StickyPct: s.StickyPct, PCTDepth: s.PCTDepth, PCTLen: s.PCTLen, DelayK: s.DelayK, DelayLen: s.DelayLen,
		Procs: s.Procs, PoolHitPct: s.PoolHitPct, PoolDropPm: s.PoolDropPm, PoolGCPm: s.PoolGCPm, RandomPools: s.RandomPools}
}

var procsChoices = []int{2, 2, 3, 3, 4, 4, 5, 6, 7, 8, 12, 16, 32}

// GenSched draws a swarm configuration: policy, worker count, pool behaviour.
func GenSched(r *RNG, estLen int, minProcs int) SchedSpec {
	s := SchedSpec{Seed: r.Next()}
	switch p := r.Intn(100); {
	case p < 2:
		s.Policy = vsim.PolCanonical
	case p < 27:
		s.Policy = vsim.PolUniform
	case p < 57:
		s.Policy = vsim.PolSticky
		s.StickyPct = r.Pick(50, 80, 95)
	case p < 82:
		s.Policy = vsim.PolPCT
		s.PCTDepth = r.Pick(1, 2, 3, 5)
		s.PCTLen = estLen
	case p < 87:
		s.Policy = vsim.PolRoundRob
	default:
		s.Policy = vsim.PolDelay
		s.DelayK = r.Range(1, 6)
		s.DelayLen = estLen
	}
	for {
		s.Procs = procsChoices[r.Intn(len(procsChoices))]
		if s.Procs >= minProcs {
			break
		}
	}
	s.PoolHitPct = r.Pick(0, 50, 90, 100)
	if r.Pct(30) {
		s.PoolDropPm = r.Pick(50, 250)
	}
	if r.Pct(20) {
		s.PoolGCPm = r.Pick(10, 100)
	}
	return s
}

// ---------------------------------------------------------------------------

type C10Params struct {
	Workload string    `json:"workload"` // A row pipeline, B lossless fork-joins, C concurrent callers, D parallel frame decode
	Sched    SchedSpec `json:"sched"`
	Clients  [][]Op    `json:"clients"`
	Anim     *AnimOp   `json:"anim,omitempty"`
}

type propC10 struct{}

func (propC10) ID() string    { return "C10" }
func (propC10) Level() string { return "exploration" }
func (propC10) NewParams() any { return &C10Params{} }

func (propC10) Plan(tier string) (int, int) {
	if tier == "thorough" {
		return 600000, 6000
	}
	return 24000, 200
}

// ColdPlan: number of cold-start runs (plain build, -race build).
func (propC10) ColdPlan(tier string) (int, int) {
	if tier == "thorough" {
		return 400, 80
	}
	return 32, 16
}

// genColdOp: operations whose first use builds package-level tables (gamma and
// colour-conversion tables, clip tables, sharp-YUV tables, prefix-code tables).
func genColdOp(r *RNG) Op {
	op := GenStillOp(r, 4, 28, false)
	if r.Pct(70) {
		op.Kind = "enc"
	}
	if !op.Opt.Lossless {
		if r.Pct(50) {
			op.Opt.Preprocessing = r.Pick(2, 3)
		}
		if r.Pct(30) {
			op.Opt.UseSharpYUV = true
		}
		if r.Pct(40) {
			op.Img.Type = r.PickS("ycbcr", "gray", "nrgba")
			op.Img.Alpha = "opaque"
		}
	}
	return op
}

func genRowPipelineOp(r *RNG) Op {
	var op Op
	op.Kind = "enc"
	op.Img = GenImgSpec(r, 1, 96, 1)
	op.Img.W = r.Pick(1, 15, 16, 17, 31, 32, 33, 47, 48, 64, 80, 96)
	op.Img.H = r.Pick(49, 50, 63, 64, 65, 80, 96, 97, 112, 128, 144)
	switch op.Img.Type {
	case "paletted", "nrgba64", "nrgba64sub", "palsub":
		op.Img.Type = "nrgba"
	}
	op.Opt = GenLossyOpts(r, 5, false)
	op.Opt.Method = r.Range(3, 6)
	op.Opt.Pass = -1
	op.Opt.TargetSize = 0
	op.Opt.TargetPSNR = 0
	return op
}

func (propC10) Gen(seed uint64, tier string, idx int) any {
	r := NewRNG(seed)
	p := &C10Params{}
	if strings.HasSuffix(tier, "+cold") {
		// the first calls of a process, made concurrently by several clients
		p.Workload = "C"
		p.Sched = GenSched(r, 300, 1)
		p.Sched.PoolHitPct = 0
		if p.Sched.Policy == vsim.PolCanonical {
			p.Sched.Policy = vsim.PolUniform
		}
		nc := r.Range(2, 5)
		// 60 % of cold runs have a theme: every client's first call goes through the same
		// lazily initialised subsystem, so that its first-use initialisation is contended
		theme := -1
		if r.Pct(60) {
			theme = r.Intn(6)
		}
		for c := 0; c < nc; c++ {
			op := genColdOp(r)
			lossy := func() {
				if op.Opt.Lossless {
					op.Opt = GenLossyOpts(r, 0, false)
				}
			}
			switch theme {
			case 0:
				lossy()
				op.Kind, op.Opt.UseSharpYUV = "enc", true
			case 1:
				lossy()
				op.Kind, op.Opt.Preprocessing = "enc", r.Pick(2, 3)
			case 2:
				if !op.Opt.Lossless {
					op.Opt = GenLosslessOpts(r, 0)
				}
				op.Kind = "enc"
			case 3:
				lossy()
				op.Kind = "dec"
			case 4:
				if !op.Opt.Lossless {
					op.Opt = GenLosslessOpts(r, 0)
				}
				op.Kind = "dec"
			case 5:
				lossy()
				op.Kind, op.Img.Type, op.Img.Alpha = "enc", r.PickS("ycbcr", "gray"), "opaque"
			}
			p.Clients = append(p.Clients, []Op{op})
		}
		return p
	}
	if strings.HasSuffix(tier, "+race") {
		// -race batch: small workloads (TSan cost is dominated by large allocations)
		if r.Pct(60) {
			p.Workload = "A"
			p.Sched = GenSched(r, 300, 2)
			if p.Sched.Procs > 6 {
				p.Sched.Procs = r.Range(2, 6)
			}
			op := genRowPipelineOp(r)
			op.Img.W = r.Pick(1, 16, 17, 32, 33, 48)
			op.Img.H = r.Pick(49, 50, 64, 65, 80)
			p.Clients = [][]Op{{op}}
		} else if r.Pct(30) {
			// lossless parallel sections with many histogram tiles (remap enabled)
			p.Workload = "B"
			p.Sched = GenSched(r, 200, 2)
			op := Op{Kind: "enc"}
			op.Img = GenImgSpec(r, 96, 150, 1)
			op.Img.Family = r.PickS("regions", "patch", "text", "pal", "flat")
			op.Img.Type = "nrgba"
			op.Opt = GenLosslessOpts(r, 0)
			op.Opt.Quality = float32(r.Pick(75, 90, 100))
			op.Opt.Method = r.Range(1, 4)
			p.Clients = [][]Op{{op}}
		} else {
			p.Workload = "C"
			p.Sched = GenSched(r, 400, 1)
			if p.Sched.PoolHitPct < 90 {
				p.Sched.PoolHitPct = 90
			}
			nc := r.Range(2, 4)
			for c := 0; c < nc; c++ {
				var ops []Op
				for i, n := 0, r.Range(1, 3); i < n; i++ {
					switch {
					case r.Pct(25):
						ops = append(ops, genHostileOp(r))
					default:
						ops = append(ops, GenStillOp(r, 1, 24, false))
					}
				}
				p.Clients = append(p.Clients, ops)
			}
		}
		return p
	}
	switch v := r.Intn(100); {
	case v < 45:
		p.Workload = "A"
		p.Sched = GenSched(r, 400, 2)
		if p.Sched.Procs > 8 {
			p.Sched.Procs = r.Range(2, 8)
		}
		p.Clients = [][]Op{{genRowPipelineOp(r)}}
	case v < 60:
		p.Workload = "B"
		p.Sched = GenSched(r, 200, 2)
		op := Op{Kind: r.PickS("enc", "enc", "dec")}
		op.Img = GenImgSpec(r, 64, 176, 1)
		op.Opt = GenLosslessOpts(r, 5)
		ops := []Op{op}
		switch b := r.Intn(20); {
		case b < 8:
			// many histogram tiles, some of them empty, remap enabled; twice in a row so the
			// second encode runs on the pooled encoder's used scratch
			op.Kind = "enc"
			op.Img.W, op.Img.H = r.Range(128, 300), r.Range(128, 260)
			op.Img.Family = r.PickS("regions", "patch", "text", "pal", "flat", "hgrad")
			op.Img.Runs = true
			op.Img.Type = "nrgba"
			op.Opt.Quality = float32(r.Pick(90, 95, 100))
			op.Opt.Method = r.Range(2, 4)
			op2 := op
			op2.Img.Seed = r.Next()
			op2.Img.Family = r.PickS("regions", "patch", "text")
			ops = []Op{op2, op}
			p.Sched.PoolHitPct = 100
		case b < 9:
			// decode above the parallel threshold with fewer rows than workers
			long := r.Pick(6700, 9000, 12500, 16383)
			op = Op{Kind: "dec", Img: ImgSpec{Family: r.PickS("flat", "hgrad", "pal"), W: long, H: r.Range(100000/long+1, 100000/long+9), Seed: r.Next(), Colors: 5, Alpha: "opaque", Type: "nrgba"}, Opt: GenLosslessOpts(r, 0)}
			op.Opt.Method, op.Opt.Quality = r.Range(0, 1), 25
			p.Sched.Procs = r.Pick(8, 12, 16, 32)
			ops = []Op{op}
		}
		p.Clients = [][]Op{ops}
	case v < 90:
		p.Workload = "C"
		p.Sched = GenSched(r, 600, 1)
		if r.Pct(30) {
			p.Sched.Procs = 1
		}
		nc := r.Range(2, 6)
		for c := 0; c < nc; c++ {
			var ops []Op
			for i, n := 0, r.Range(1, 3); i < n; i++ {
				if r.Pct(20) {
					ops = append(ops, genRowPipelineOp(r))
				} else if r.Pct(8) {
					ops = append(ops, genAnimEncOp(r))
				} else if r.Pct(6) {
					ops = append(ops, genHostileOp(r))
				} else {
					ops = append(ops, GenStillOp(r, 1, 40, false))
				}
			}
			p.Clients = append(p.Clients, ops)
		}
	default:
		p.Workload = "D"
		p.Sched = GenSched(r, 300, 1)
		a := GenAnimDecodeOp(r)
		p.Anim = &a
	}
	return p
}

func (propC10) Shrink(pp any) []any {
	p := pp.(*C10Params)
	var out []any
	// fewer clients, fewer ops
	if len(p.Clients) > 1 {
		for i := range p.Clients {
			q := *p
			q.Clients = append(append([][]Op{}, p.Clients[:i]...), p.Clients[i+1:]...)
			out = append(out, &q)
		}
	}
	for i := range p.Clients {
		if len(p.Clients[i]) > 1 {
			for j := range p.Clients[i] {
				q := *p
				q.Clients = append([][]Op{}, p.Clients...)
				q.Clients[i] = append(append([]Op{}, p.Clients[i][:j]...), p.Clients[i][j+1:]...)
				out = append(out, &q)
			}
		}
	}
	// simpler pool behaviour
	if p.Sched.PoolDropPm != 0 || p.Sched.PoolGCPm != 0 {
		q := *p
		q.Sched.PoolDropPm, q.Sched.PoolGCPm = 0, 0
		out = append(out, &q)
	}
	if p.Sched.PoolHitPct != 0 {
		q := *p
		q.Sched.PoolHitPct = 0
		out = append(out, &q)
	}
	return out
}

// soloMemo caches the result of an op executed alone (canonical, fresh world).
var soloMemo = map[string]Result{}

func soloResult(x *X, op Op, k int, input []byte) (Result, *Violation) {
	key := fmt.Sprintf("%d|%s", k, op.Key())
	if r, ok := soloMemo[key]; ok {
		return r, nil
	}
	var res Result
	w := x.Solo(k, func() { res = ExecOp(op, input) })
	if v := x.WorldViolation("C10", w); v != nil {
		v.Sig = "solo-" + v.Sig
		v.Detail = "while executing alone under the canonical schedule: " + op.String() + ": " + v.Detail
		return res, v
	}
	res.Bytes, res.Img = nil, nil
	if len(soloMemo) > 20000 {
		soloMemo = map[string]Result{}
	}
	soloMemo[key] = res
	return res, nil
}

func codecOf(op Op) string {
	if op.Kind == "animenc" {
		return "anim"
	}
	if op.Kind == "hostile" {
		return "hostile"
	}
	if op.Opt.Lossless {
		return "lossless"
	}
	if op.Img.Alpha != "opaque" && op.Img.Alpha != "" {
		return "lossy+alpha"
	}
	return "lossy"
}

func (propC10) Execute(pp any, x *X) *Violation {
	p := pp.(*C10Params)
	if p.Workload == "D" {
		return execC10D(p, x)
	}
	// inputs for decode-type ops are produced outside the explored world
	inputs := make([][][]byte, len(p.Clients))
	for c, ops := range p.Clients {
		inputs[c] = make([][]byte, len(ops))
		for i, op := range ops {
			if needsInput(op) {
				inputs[c][i] = InputFor(op)
			}
		}
	}
	runClients := func(results [][]Result) func() {
		return func() {
			if len(p.Clients) == 1 {
				for i, op := range p.Clients[0] {
					results[0][i] = ExecOp(op, inputs[0][i])
				}
				return
			}
			var wg ssync.WaitGroup
			for c := range p.Clients {
				wg.Add(1)
				c := c
				vsim.Go(c+1, func() {
					defer wg.Done()
					for i, op := range p.Clients[c] {
						results[c][i] = ExecOp(op, inputs[c][i])
					}
				})
			}
			wg.Wait()
		}
	}
	newResults := func() [][]Result {
		r := make([][]Result, len(p.Clients))
		for c := range r {
			r[c] = make([]Result, len(p.Clients[c]))
		}
		return r
	}
	results := newResults()
	w := x.Explore(p.Sched.Config(), runClients(results))
	nontrivial := w.Multi > 0
	x.Case(w.Hash, nontrivial)
	x.Count("workload_"+p.Workload, 1)
	if w.Multi > 0 {
		x.Count("runs_with_concurrency", 1)
	}
	x.Sample(map[string]any{"workload": p.Workload, "sched": p.Sched, "ops": describeClients(p.Clients), "steps": w.Steps, "points_with_choice": w.Multi, "tasks": w.NTasks()})
	if v := x.WorldViolation("C10", w); v != nil {
		return v
	}
	if x.Inconclusive != "" {
		return nil
	}
	for c, ops := range p.Clients {
		for i, op := range ops {
			x.Workload(hashString(op.Key()))
			want, v := soloResult(x, op, p.Sched.Procs, inputs[c][i])
			if v != nil {
				return v
			}
			got := results[c][i]
			if !got.Same(want) {
				// attribution: is pool reuse necessary for the difference? Re-execute the
				// same decisions with every Pool.Get forced to miss.
				class := "diff"
				cfg := p.Sched.Config()
				cfg.ForcePoolMiss = true
				r2 := newResults()
				w2 := vsim.NewWorld(cfg, w.Decisions(), 1)
				w2.Run(runClients(r2))
				if w.Probes[vsim.PPoolHit] > 0 && !w2.Aborted && w2.NPanics == 0 && r2[c][i].Same(want) {
					class = "pool-reuse"
				}
				return &Violation{Prop: "C10", Sig: class + ":" + op.Kind + ":" + codecOf(op),
					Detail: fmt.Sprintf("client %d op %d (%s): under the explored schedule -> %s; alone under the canonical schedule with the same worker count %d -> %s [class %s: with every pool Get forced to miss the difference %s]", c, i, op.String(), got.Short(), p.Sched.Procs, want.Short(), class, map[string]string{"diff": "persists (schedule/concurrency is necessary)", "pool-reuse": "disappears (reuse of a pooled object is necessary)"}[class])}
			}
		}
	}
	return nil
}

func describeClients(cs [][]Op) [][]string {
	out := make([][]string, len(cs))
	for i, ops := range cs {
		for _, op := range ops {
			out[i] = append(out[i], op.String())
		}
	}
	return out
}

func (propC10) Describe() PropDoc {
	return PropDoc{
		Rule: "one run = one seeded configuration (scheduling policy, uniform worker count, pool behaviour) x one seeded workload (A: row-pipelined lossy encode; B: lossless encode/decode with parallel sections; C: 2-6 concurrent API clients sharing the pools; D: parallel frame decoding). distinct = distinct hash of the sequence <task, operation, object> of the explored world; non-trivial = at least one scheduling point had two or more runnable tasks.",
		Assumptions: []string{
			"interleavings are explored at synchronisation-operation granularity; plain accesses between two such points run atomically and are covered by the happens-before race check of the -race build, not by interleaving them",
			"the simulated sync/atomic/pool/channel primitives have the semantics (and, under -race, the happens-before edges) of the real ones",
			"sampling: a clean batch is evidence, not proof",
		},
		Real:      []string{"every line of deepteams/webp (incl. assembly kernels), compiled from /repo's working tree after the mechanical simgen rewrite"},
		Simulated: []string{"sync.Mutex/Cond/WaitGroup/Once/Pool", "sync/atomic", "runtime.GOMAXPROCS(0)", "channels", "goroutine scheduling"},
		Reference: []string{"the same operation executed alone in a fresh world under the canonical schedule with the same worker count"},
		MustReach: []string{"cond_slow_path", "cond_woken", "pool_hit", "pool_cross_task_hit", "preemptions", "wg_wait_blocked"},
	}
}

// genAnimEncOp: a short animation-encoder history as one client operation; frames
// are kept by the muxer until Close, so a frame bitstream that aliases pooled
// memory is exposed.
func genAnimEncOp(r *RNG) Op {
	a := GenAnimSpec(r, 40, 4, r.Pct(70), 40)
	a.FailAlt, a.FailBG = false, false
	for i := range a.Frames {
		if a.Frames[i].Dur > 1<<20 {
			a.Frames[i].Dur = 40
		}
		if i > 0 && r.Pct(50) {
			a.Frames[i].Mut = "big"
		}
	}
	return Op{Kind: "animenc", Anim: &a}
}
