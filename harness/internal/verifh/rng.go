package verifh

// RNG is a splitmix64 generator. Every random choice of the harness comes from an
// RNG derived from VERIF_SEED through labelled sub-streams.
type RNG struct{ s uint64 }

func NewRNG(seed uint64) *RNG { return &RNG{s: seed} }

func (r *RNG) Next() uint64 {
	r.s += 0x9e3779b97f4a7c15
	z := r.s
	z = (z ^ (z >> 30)) * 0xbf58476d1ce4e5b9
	z = (z ^ (z >> 27)) * 0x94d049bb133111eb
	return z ^ (z >> 31)
}

func (r *RNG) Intn(n int) int {
	if n <= 0 {
		return 0
	}
	return int(r.Next() % uint64(n))
}

// Range returns a value in [lo,hi].
func (r *RNG) Range(lo, hi int) int { return lo + r.Intn(hi-lo+1) }

func (r *RNG) Bool() bool { return r.Next()&1 == 1 }

// Pct returns true with probability p/100.
func (r *RNG) Pct(p int) bool { return r.Intn(100) < p }

func (r *RNG) Pick(xs ...int) int { return xs[r.Intn(len(xs))] }

func (r *RNG) PickS(xs ...string) string { return xs[r.Intn(len(xs))] }

// Derive returns an independent seed for a labelled sub-stream.
func Derive(seed uint64, label string) uint64 {
	h := seed ^ 0xcbf29ce484222325
	for i := 0; i < len(label); i++ {
		h = (h ^ uint64(label[i])) * 0x100000001b3
	}
	r := RNG{s: h}
	r.Next()
	return r.Next()
}

func DeriveN(seed uint64, label string, n int) uint64 {
	return Derive(Derive(seed, label)+uint64(n)*0x9e3779b97f4a7c15, "n")
}
