package verifh

import (
	"bytes"
	"encoding/json"
	"fmt"
	"image"

	webp "github.com/deepteams/webp"
)

// Op is one public-API call on generated arguments.
type Op struct {
	Kind string  `json:"kind"` // enc dec cfg feat imgdec
	Img  ImgSpec `json:"img"`
	Opt  OptSpec `json:"opt"`
}

func (o Op) Key() string {
	b, _ := json.Marshal(o)
	return string(b)
}

func (o Op) String() string {
	return fmt.Sprintf("%s %s %s", o.Kind, o.Img.String(), o.Opt.String())
}

// Result is the observable outcome of an Op: error-ness and a digest of what was
// returned (never error strings, never timing).
type Result struct {
	Err    bool   `json:"err"`
	ErrStr string `json:"errstr,omitempty"`
	Digest string `json:"digest,omitempty"`
	Len    int    `json:"len,omitempty"`
	W      int    `json:"w,omitempty"`
	H      int    `json:"h,omitempty"`
	Bytes  []byte `json:"-"`
	Img    image.Image `json:"-"`
}

func (a Result) Same(b Result) bool {
	if a.Err != b.Err {
		return false
	}
	if a.Err {
		return true
	}
	return a.Digest == b.Digest && a.W == b.W && a.H == b.H && a.Len == b.Len
}

func (a Result) Short() string {
	if a.Err {
		return "error(" + a.ErrStr + ")"
	}
	return fmt.Sprintf("ok len=%d %dx%d digest=%s", a.Len, a.W, a.H, a.Digest)
}

// Files memoises the still files decode-type ops read: the encoding of (img,opt)
// produced alone, canonical schedule, worker count 1.
type Files struct {
	m map[string][]byte
}

func NewFiles() *Files { return &Files{m: map[string][]byte{}} }

var globalFiles = NewFiles()

func fileKey(img ImgSpec, opt OptSpec) string {
	return Op{Kind: "enc", Img: img, Opt: opt}.Key()
}

// FileFor must be called outside any world.
func FileFor(img ImgSpec, opt OptSpec) []byte {
	k := fileKey(img, opt)
	if b, ok := globalFiles.m[k]; ok {
		return b
	}
	var res Result
	x := &X{Stats: NewStats(), Quiet: true}
	x.Solo(1, func() { res = ExecOp(Op{Kind: "enc", Img: img, Opt: opt}, nil) })
	if res.Err {
		globalFiles.m[k] = nil
		return nil
	}
	if len(globalFiles.m) > 4000 {
		globalFiles.m = map[string][]byte{}
	}
	globalFiles.m[k] = res.Bytes
	return res.Bytes
}

// ExecOp performs the call in the current task of the current world. input is the
// file for decode-type ops.
func ExecOp(op Op, input []byte) Result {
	switch op.Kind {
	case "enc":
		img := Generate(op.Img)
		var buf bytes.Buffer
		err := webp.Encode(&buf, img, op.Opt.ToOptions())
		if err != nil {
			return Result{Err: true, ErrStr: err.Error()}
		}
		b := buf.Bytes()
		return Result{Digest: DigestBytes(b), Len: len(b), Bytes: b}
	case "dec":
		img, err := webp.Decode(bytes.NewReader(input))
		if err != nil {
			return Result{Err: true, ErrStr: err.Error()}
		}
		return Result{Digest: DigestImage(img), W: img.Bounds().Dx(), H: img.Bounds().Dy(), Img: img}
	case "imgdec":
		img, _, err := image.Decode(bytes.NewReader(input))
		if err != nil {
			return Result{Err: true, ErrStr: err.Error()}
		}
		return Result{Digest: DigestImage(img), W: img.Bounds().Dx(), H: img.Bounds().Dy(), Img: img}
	case "cfg":
		c, err := webp.DecodeConfig(bytes.NewReader(input))
		if err != nil {
			return Result{Err: true, ErrStr: err.Error()}
		}
		return Result{Digest: fmt.Sprintf("%T", c.ColorModel) + fmt.Sprint(c.ColorModel == nil), W: c.Width, H: c.Height}
	case "feat":
		f, err := webp.GetFeatures(bytes.NewReader(input))
		if err != nil {
			return Result{Err: true, ErrStr: err.Error()}
		}
		return Result{Digest: fmt.Sprintf("%+v", *f), W: f.Width, H: f.Height}
	}
	panic("unknown op kind " + op.Kind)
}

// GenStillOp draws an encode or decode-type op on a small image.
func GenStillOp(r *RNG, minSide, maxSide int, heavy bool) Op {
	var op Op
	lossless := r.Pct(40)
	if lossless {
		op.Img = GenImgSpec(r, minSide, maxSide, 1)
		op.Opt = GenLosslessOpts(r, 20)
	} else {
		op.Img = GenImgSpec(r, minSide, maxSide, 1)
		op.Opt = GenLossyOpts(r, 20, heavy)
	}
	switch r.Intn(10) {
	case 0, 1, 2, 3, 4:
		op.Kind = "enc"
	case 5, 6, 7:
		op.Kind = "dec"
	case 8:
		op.Kind = "cfg"
	default:
		op.Kind = "feat"
	}
	return op
}

func hashString(s string) uint64 {
	h := uint64(14695981039346656037)
	for i := 0; i < len(s); i++ {
		h = (h ^ uint64(s[i])) * 1099511628211
	}
	return h
}
