package verifh

import (
	"bytes"

	"github.com/deepteams/webp/animation"
	"encoding/json"
	"fmt"
	"image"

	webp "github.com/deepteams/webp"
)

// Op is one public-API call on generated arguments.
type Op struct {
	Kind string    `json:"kind"` // enc dec cfg feat imgdec animenc
	Img  ImgSpec   `json:"img"`
	Opt  OptSpec   `json:"opt"`
	Anim *AnimSpec `json:"anim,omitempty"` // animenc: a history of AddFrame calls + Close
	// hostile: every decoding entry point on corrupted / truncated stored bytes
	Hostile *C05Params `json:"hostile,omitempty"`
	// animdec: parse + DecodeFramesParallel of an animation, some frames damaged
	AnimDec *AnimOp `json:"animdec,omitempty"`
}

func (o Op) Key() string {
	b, _ := json.Marshal(o)
	return string(b)
}

func (o Op) String() string {
	if o.Kind == "animenc" && o.Anim != nil {
		return "animenc " + o.Anim.String()
	}
	if o.Kind == "animdec" && o.AnimDec != nil {
		return fmt.Sprintf("animdec %s corrupt=%v", o.AnimDec.Spec.String(), o.AnimDec.Corrupt)
	}
	if o.Kind == "hostile" && o.Hostile != nil {
		return fmt.Sprintf("hostile base=%s faults=%+v", o.Hostile.Base, o.Hostile.Faults)
	}
	return fmt.Sprintf("%s %s %s", o.Kind, o.Img.String(), o.Opt.String())
}

// Result is the observable outcome of an Op: error-ness and a digest of what was
// returned (never error strings, never timing).
type Result struct {
	Err    bool   `json:"err"`
	ErrStr string `json:"errstr,omitempty"`
	Digest string `json:"digest,omitempty"`
	Len    int    `json:"len,omitempty"`
	W      int    `json:"w,omitempty"`
	H      int    `json:"h,omitempty"`
	Bytes  []byte `json:"-"`
	Img    image.Image `json:"-"`
}

func (a Result) Same(b Result) bool {
	if a.Err != b.Err {
		return false
	}
	if a.Err {
		return true
	}
	return a.Digest == b.Digest && a.W == b.W && a.H == b.H && a.Len == b.Len
}

func (a Result) Short() string {
	if a.Err {
		return "error(" + a.ErrStr + ")"
	}
	return fmt.Sprintf("ok len=%d %dx%d digest=%s", a.Len, a.W, a.H, a.Digest)
}

// Files memoises the still files decode-type ops read: the encoding of (img,opt)
// produced alone, canonical schedule, worker count 1.
type Files struct {
	m map[string][]byte
}

func NewFiles() *Files { return &Files{m: map[string][]byte{}} }

var globalFiles = NewFiles()

func fileKey(img ImgSpec, opt OptSpec) string {
	return Op{Kind: "enc", Img: img, Opt: opt}.Key()
}

// FileFor must be called outside any world.
func FileFor(img ImgSpec, opt OptSpec) []byte {
	k := fileKey(img, opt)
	if b, ok := globalFiles.m[k]; ok {
		return b
	}
	var res Result
	x := &X{Stats: NewStats(), Quiet: true}
	x.Solo(1, func() { res = ExecOp(Op{Kind: "enc", Img: img, Opt: opt}, nil) })
	if res.Err {
		globalFiles.m[k] = nil
		return nil
	}
	if len(globalFiles.m) > 4000 {
		globalFiles.m = map[string][]byte{}
	}
	globalFiles.m[k] = res.Bytes
	return res.Bytes
}

// ExecOp performs the call in the current task of the current world. input is the
// file for decode-type ops.
func ExecOp(op Op, input []byte) Result {
	switch op.Kind {
	case "enc":
		img := Generate(op.Img)
		// a fault-free simulated writer: every Write is a scheduling point, so other
		// clients can run while this Encode is in the middle of writing
		wr := &SimWriter{}
		err := webp.Encode(wr, img, op.Opt.ToOptions())
		if err != nil {
			return Result{Err: true, ErrStr: err.Error()}
		}
		b := wr.Data
		return Result{Digest: DigestBytes(b), Len: len(b), Bytes: b}
	case "animenc":
		in, _ := op.Anim.Canvases()
		res := EncodeAnim(*op.Anim, in, WriteFault{})
		if res.AddErr != nil || res.CloseErr != nil {
			return Result{Err: true, ErrStr: fmt.Sprint(res.AddErr, res.CloseErr)}
		}
		return Result{Digest: DigestBytes(res.Data), Len: len(res.Data), Bytes: res.Data}
	case "hostile":
		return execHostile(input)
	case "animdec":
		anim, err := animation.DecodeBytes(input)
		if err != nil {
			return Result{Err: true, ErrStr: err.Error()}
		}
		corruptFrames(anim, op.AnimDec.Corrupt)
		derr := anim.DecodeFramesParallel()
		h := fmt.Sprint("err=", derr != nil)
		for _, fr := range anim.Frames {
			if fr.Image == nil {
				h += ";nil"
			} else {
				h += ";" + DigestImage(fr.Image)
			}
		}
		return Result{Digest: DigestBytes([]byte(h)), Len: len(anim.Frames), W: anim.CanvasWidth, H: anim.CanvasHeight}
	case "dec":
		img, err := webp.Decode(NewSimReader(input, ReadPlan{Mode: "whole", HasLen: true, ErrAt: -1}))
		if err != nil {
			return Result{Err: true, ErrStr: err.Error()}
		}
		return Result{Digest: DigestImage(img), W: img.Bounds().Dx(), H: img.Bounds().Dy(), Img: img}
	case "imgdec":
		img, _, err := image.Decode(bytes.NewReader(input))
		if err != nil {
			return Result{Err: true, ErrStr: err.Error()}
		}
		return Result{Digest: DigestImage(img), W: img.Bounds().Dx(), H: img.Bounds().Dy(), Img: img}
	case "cfg":
		c, err := webp.DecodeConfig(bytes.NewReader(input))
		if err != nil {
			return Result{Err: true, ErrStr: err.Error()}
		}
		return Result{Digest: fmt.Sprintf("%T", c.ColorModel) + fmt.Sprint(c.ColorModel == nil), W: c.Width, H: c.Height}
	case "feat":
		f, err := webp.GetFeatures(bytes.NewReader(input))
		if err != nil {
			return Result{Err: true, ErrStr: err.Error()}
		}
		return Result{Digest: fmt.Sprintf("%+v", *f), W: f.Width, H: f.Height}
	}
	panic("unknown op kind " + op.Kind)
}

// GenStillOp draws an encode or decode-type op on a small image.
func GenStillOp(r *RNG, minSide, maxSide int, heavy bool) Op {
	var op Op
	lossless := r.Pct(40)
	if lossless {
		op.Img = GenImgSpec(r, minSide, maxSide, 1)
		op.Opt = GenLosslessOpts(r, 20)
	} else {
		op.Img = GenImgSpec(r, minSide, maxSide, 1)
		op.Opt = GenLossyOpts(r, 20, heavy)
	}
	switch r.Intn(10) {
	case 0, 1, 2, 3, 4:
		op.Kind = "enc"
	case 5, 6, 7:
		op.Kind = "dec"
	case 8:
		op.Kind = "cfg"
	default:
		op.Kind = "feat"
	}
	return op
}

func hashString(s string) uint64 {
	h := uint64(14695981039346656037)
	for i := 0; i < len(s); i++ {
		h = (h ^ uint64(s[i])) * 1099511628211
	}
	return h
}

// needsInput: decode-type ops read a stored file produced beforehand.
func needsInput(op Op) bool { return op.Kind != "enc" && op.Kind != "animenc" }

// InputFor returns the stored bytes a decode-type op reads (outside any world).
func InputFor(op Op) []byte {
	if op.Kind == "hostile" {
		return c05Bytes(op.Hostile)
	}
	if op.Kind == "animdec" {
		return AnimFileFor(op.AnimDec.Spec)
	}
	return FileFor(op.Img, op.Opt)
}

// execHostile runs the decoding entry points on hostile bytes and digests every
// outcome (error-ness, dimensions, pixels): the outcome must not depend on history.
func execHostile(data []byte) Result {
	h := ""
	add := func(name string, err error, what string) {
		if err != nil {
			h += name + ":err;"
		} else {
			h += name + ":" + what + ";"
		}
	}
	img, err := webp.Decode(bytes.NewReader(data))
	d := ""
	if err == nil {
		d = DigestImage(img)
	}
	add("Decode", err, d)
	c, err := webp.DecodeConfig(bytes.NewReader(data))
	add("DecodeConfig", err, fmt.Sprint(c.Width, c.Height, c.ColorModel == nil))
	f, err := webp.GetFeatures(bytes.NewReader(data))
	fs := ""
	if err == nil {
		fs = fmt.Sprintf("%+v", *f)
	}
	add("GetFeatures", err, fs)
	anim, err := animation.DecodeBytes(data)
	as := ""
	if err == nil {
		as = fmt.Sprint(anim.CanvasWidth, anim.CanvasHeight, len(anim.Frames), anim.LoopCount)
		if uint64(anim.CanvasWidth)*uint64(anim.CanvasHeight) <= 1<<20 {
			if e2 := anim.DecodeFrames(); e2 != nil {
				as += ":frames-err"
			} else {
				for _, fr := range anim.Frames {
					if fr.Image != nil {
						as += ":" + DigestImage(fr.Image)
					}
				}
			}
		}
	}
	add("animation", err, as)
	return Result{Digest: DigestBytes([]byte(h)), Len: len(data)}
}
