package verifh

import (
	"bytes"
	"fmt"
	"image"

	webp "github.com/deepteams/webp"
	"github.com/deepteams/webp/internal/lossy"
	"github.com/deepteams/webp/internal/vsim"
)

// C06 — lossy decode equals the encoder's own reconstruction (no drift).
// The encoder's reconstruction is observed through the verif-tagged hook; the
// decoder's pre-filter planes through the second hook; the independent x/image
// decoder gives a third opinion. The simulated dimensions are the worker count
// (serial vs row-pipelined encoder), the schedule of the row pipeline and pools.

type C06Params struct {
	Sched SchedSpec `json:"sched"`
	Img   ImgSpec   `json:"img"`
	Opt   OptSpec   `json:"opt"`
	// Prior: an earlier lossy encode in the same world with the same macroblock grid,
	// so that the checked encode runs on a reused (pooled) encoder
	Prior *Op `json:"prior,omitempty"`
	// PriorDec: a lossy file decoded in the world in which this package's decoder then
	// decodes the checked stream (pooled decoder reuse)
	PriorDec *Op `json:"prior_dec,omitempty"`
}

type propC06 struct{}

func (propC06) ID() string     { return "C06" }
func (propC06) Level() string  { return "exploration" }
func (propC06) NewParams() any { return &C06Params{} }
func (propC06) Plan(tier string) (int, int) {
	if tier == "thorough" {
		return 1500000, 0
	}
	return 12000, 0
}

func (propC06) Gen(seed uint64, tier string, idx int) any {
	r := NewRNG(seed)
	p := &C06Params{}
	p.Sched = GenSched(r, 400, 1)
	if r.Pct(30) {
		p.Sched.Procs = 1 // serial encoder
	} else if p.Sched.Procs > 8 {
		p.Sched.Procs = r.Range(2, 8)
	}
	if r.Pct(55) {
		op := genRowPipelineOp(r) // H >= 49, Method >= 3: row-pipelined path when Procs > 1
		p.Img, p.Opt = op.Img, op.Opt
	} else {
		p.Img = GenImgSpec(r, 1, 80, 1)
		p.Opt = GenLossyOpts(r, 5, true)
	}
	if r.Pct(2) {
		// large, statistically uniform pictures (segment map corner cases, > 32768 tokens)
		p.Img.Family = r.PickS("patch", "patch", "noise", "flat", "regions", "hole", "hole")
		p.Img.W, p.Img.H = 16*r.Range(16, 40)-r.Intn(2), 16*r.Range(16, 40)-r.Intn(2)
		p.Opt.Pass, p.Opt.TargetSize, p.Opt.TargetPSNR = -1, 0, 0
	}
	if r.Pct(8) {
		// rate control with room to converge: several segments, SNS on, many passes, a
		// target around what the picture needs (0.4 .. 6 bits per pixel), so that the
		// search ends with small quality steps
		p.Img = GenImgSpec(r, 32, 128, 0)
		p.Img.Family = r.PickS("noise", "noise", "smooth", "regions", "dgrad", "text")
		p.Img.Alpha = "opaque"
		p.Opt = GenLossyOpts(r, 0, false)
		p.Opt.Preset, p.Opt.QMin, p.Opt.QMax = 0, 0, -1
		p.Opt.Segments = r.Pick(2, 3, 4, 4)
		p.Opt.SNSStrength = r.Pick(-1, 25, 50, 80, 100)
		p.Opt.Pass = r.Pick(2, 3, 4, 6, 6, 8, 10)
		bpp := r.Pick(4, 8, 12, 16, 24, 32, 48, 60) // tenths of a bit per pixel
		if r.Pct(25) {
			p.Opt.TargetPSNR = float32(r.Range(30, 44))
		} else {
			p.Opt.TargetSize = p.Img.W*p.Img.H*bpp/80 + r.Intn(50)
		}
	}
	switch p.Img.Type {
	case "paletted", "nrgba64", "nrgba64sub", "palsub":
		p.Img.Type = "nrgba"
	}
	if r.Pct(25) {
		// a flat or arbitrary lossy picture decoded just before, same macroblock columns
		op := Op{Kind: "dec", Img: GenImgSpec(r, 1, 80, 0), Opt: GenLossyOpts(r, 0, false)}
		op.Img.Family = r.PickS("flat", "flat", "hgrad", "noise", "smooth")
		op.Img.W = p.Img.W
		op.Img.H = r.Pick(16, 17, 32, 48, p.Img.H)
		op.Img.Type, op.Img.Alpha = "nrgba", "opaque"
		p.PriorDec = &op
	}
	if r.Pct(30) {
		op := Op{Kind: "enc", Img: GenImgSpec(r, 1, 80, 1), Opt: GenLossyOpts(r, 0, false)}
		op.Img.W = (p.Img.W+15)/16*16 - r.Intn(16)
		op.Img.H = (p.Img.H+15)/16*16 - r.Intn(16)
		if op.Img.W < 1 {
			op.Img.W = 1
		}
		if op.Img.H < 1 {
			op.Img.H = 1
		}
		switch op.Img.Type {
		case "paletted", "nrgba64":
			op.Img.Type = "nrgba"
		}
		p.Prior = &op
		p.Sched.PoolHitPct = 100
		p.Sched.RandomPools = true
	}
	return p
}

func (propC06) Shrink(pp any) []any {
	p := pp.(*C06Params)
	var out []any
	add := func(f func(q *C06Params)) {
		q := *p
		f(&q)
		out = append(out, &q)
	}
	if p.Prior != nil {
		add(func(q *C06Params) { q.Prior = nil })
	}
	if p.Prior == nil && (p.Sched.Policy != vsim.PolCanonical || p.Sched.PoolHitPct != 0) {
		add(func(q *C06Params) {
			q.Sched.Policy = vsim.PolCanonical
			q.Sched.PoolHitPct, q.Sched.PoolDropPm, q.Sched.PoolGCPm = 0, 0, 0
		})
	}
	if p.Img.W > 16 {
		add(func(q *C06Params) { q.Img.W -= 16 })
	}
	if p.Img.H > 16 {
		add(func(q *C06Params) { q.Img.H -= 16 })
	}
	if p.Opt.HasMeta() {
		add(func(q *C06Params) { q.Opt.ICCLen, q.Opt.EXIFLen, q.Opt.XMPLen = -1, -1, -1 })
	}
	return out
}

type recon struct {
	y, u, v           []byte
	ys, uvs, mbW, mbH int
	calls             int
}

// planeDiff compares the visible w x h area of two planes.
func planeDiff(name string, a []byte, as int, b []byte, bs int, w, h int) string {
	for y := 0; y < h; y++ {
		ra, rb := a[y*as:y*as+w], b[y*bs:y*bs+w]
		if !bytes.Equal(ra, rb) {
			for x := 0; x < w; x++ {
				if ra[x] != rb[x] {
					return fmt.Sprintf("%s(%d,%d): %d vs %d (macroblock %d,%d)", name, x, y, ra[x], rb[x], x/16, y/16)
				}
			}
		}
	}
	return ""
}

func (propC06) Execute(pp any, x *X) *Violation {
	p := pp.(*C06Params)
	img := Generate(p.Img)
	var rc recon
	var file []byte
	var encErr error
	w := x.Explore(p.Sched.Config(), func() {
		lossy.VerifOnFrame = func(y, u, v []byte, ys, uvs, mbW, mbH int) {
			rc = recon{y, u, v, ys, uvs, mbW, mbH, rc.calls + 1}
		}
		defer func() { lossy.VerifOnFrame = nil }()
		if p.Prior != nil {
			ExecOp(*p.Prior, nil)
			rc = recon{}
		}
		var buf bytes.Buffer
		encErr = webp.Encode(&buf, img, p.Opt.ToOptions())
		file = buf.Bytes()
	})
	parallel := false
	for _, st := range w.SiteStats() {
		// the worker-count read inside encodeFrameParallel is only reached on the row-pipelined path
		if st.Name == "lossy.VP8Encoder.encodeFrameParallel#0" && st.Hits > 0 {
			parallel = true
		}
	}
	x.Case(w.Hash^hashString(Op{Kind: "enc", Img: p.Img, Opt: p.Opt}.Key()), true)
	x.Workload(hashString(Op{Kind: "enc", Img: p.Img, Opt: p.Opt}.Key()))
	x.Sample(map[string]any{"img": p.Img.String(), "opt": p.Opt.String(), "sched": p.Sched, "row_pipelined_encoder": parallel})
	if v := x.WorldViolation("C06", w); v != nil {
		return v
	}
	if x.Inconclusive != "" {
		return nil
	}
	if encErr != nil {
		x.Count("encode_refused", 1)
		return nil
	}
	if rc.calls != 1 {
		x.Inconclusive = fmt.Sprintf("hook called %d times during one Encode", rc.calls)
		return nil
	}
	path := "serial"
	if parallel {
		path = "parallel"
	}
	wf, err := Walk(file)
	if err != nil || len(wf.Frames) != 1 || wf.Frames[0].Lossless {
		return &Violation{Prop: "C06", Sig: "not-a-lossy-still", Detail: fmt.Sprintf("walker: %v", err)}
	}
	fr := &wf.Frames[0]
	W, H := p.Img.W, p.Img.H
	if fr.BsW != W || fr.BsH != H {
		return &Violation{Prop: "C06", Sig: "size:" + path, Detail: fmt.Sprintf("%s %s: source %dx%d, bitstream %dx%d", p.Img, p.Opt, W, H, fr.BsW, fr.BsH)}
	}
	cw, chh := (W+1)/2, (H+1)/2
	// (1) this package's decoder, before in-loop deblocking
	var dy, du, dv []byte
	var dys, duvs int
	var derr error
	var priorDecIn []byte
	if p.PriorDec != nil {
		priorDecIn = FileFor(p.PriorDec.Img, p.PriorDec.Opt)
	}
	ws := vsim.NewWorld(vsim.Config{Policy: vsim.PolCanonical, Procs: 1, RandomPools: p.PriorDec != nil, PoolHitPct: 100}, nil, 0)
	ws.Run(func() {
		if priorDecIn != nil {
			webp.Decode(bytes.NewReader(priorDecIn))
		}
		lossy.VerifSkipLoopFilter = true
		defer func() { lossy.VerifSkipLoopFilter = false }()
		dec, dw, dh, y, ys, u, v, uvs, err := lossy.DecodeFrame(fr.Bitstream)
		if err != nil {
			derr = err
			return
		}
		if dw != W || dh != H {
			derr = fmt.Errorf("decoded %dx%d", dw, dh)
		}
		dy, du, dv = append([]byte(nil), y...), append([]byte(nil), u...), append([]byte(nil), v...)
		dys, duvs = ys, uvs
		lossy.ReleaseDecoder(dec)
	})
	if v := x.WorldViolation("C06", ws); v != nil {
		return v
	}
	if derr != nil {
		return &Violation{Prop: "C06", Sig: "own-decoder-rejects:" + path, Detail: fmt.Sprintf("%s %s: %v", p.Img, p.Opt, derr)}
	}
	for _, c := range []struct {
		n      string
		a      []byte
		as     int
		b      []byte
		bs     int
		pw, ph int
	}{{"Y", rc.y, rc.ys, dy, dys, W, H}, {"Cb", rc.u, rc.uvs, du, duvs, cw, chh}, {"Cr", rc.v, rc.uvs, dv, duvs, cw, chh}} {
		if d := planeDiff(c.n, c.a, c.as, c.b, c.bs, c.pw, c.ph); d != "" {
			return &Violation{Prop: "C06", Sig: "drift:" + path + ":own-decoder", Detail: fmt.Sprintf("%s %s (worker count %d, %s encoder): encoder reconstruction vs this package's decoder before deblocking: %s", p.Img, p.Opt, p.Sched.Procs, path, d)}
		}
	}
	// (2) the independent decoder, before deblocking
	ry, rerr := refDecodeVP8(fr.Bitstream, true)
	if rerr != nil {
		return &Violation{Prop: "C06", Sig: "independent-decoder-rejects:" + path, Detail: fmt.Sprintf("%s %s: %v", p.Img, p.Opt, rerr)}
	}
	if ry.Rect.Dx() != W || ry.Rect.Dy() != H {
		return &Violation{Prop: "C06", Sig: "size:independent", Detail: fmt.Sprintf("x/image decodes %v", ry.Rect)}
	}
	for _, c := range []struct {
		n      string
		a      []byte
		as     int
		b      []byte
		bs     int
		pw, ph int
	}{{"Y", rc.y, rc.ys, ry.Y[ry.YOffset(ry.Rect.Min.X, ry.Rect.Min.Y):], ry.YStride, W, H}, {"Cb", rc.u, rc.uvs, ry.Cb[ry.COffset(ry.Rect.Min.X, ry.Rect.Min.Y):], ry.CStride, cw, chh}, {"Cr", rc.v, rc.uvs, ry.Cr[ry.COffset(ry.Rect.Min.X, ry.Rect.Min.Y):], ry.CStride, cw, chh}} {
		if d := planeDiff(c.n, c.a, c.as, c.b, c.bs, c.pw, c.ph); d != "" {
			return &Violation{Prop: "C06", Sig: "drift:" + path + ":independent-decoder", Detail: fmt.Sprintf("%s %s (worker count %d, %s encoder): encoder reconstruction vs x/image before deblocking: %s", p.Img, p.Opt, p.Sched.Procs, path, d)}
		}
	}
	x.Count("reconstructions_verified_"+path, 1)
	// (3) loop filter disabled: the public decode equals the reconstruction exactly
	var pub image.Image
	var perr error
	ws2 := x.Solo(1, func() { pub, perr = webp.Decode(bytes.NewReader(file)) })
	if v := x.WorldViolation("C06", ws2); v != nil {
		return v
	}
	if perr != nil {
		return &Violation{Prop: "C06", Sig: "public-decode-fails", Detail: perr.Error()}
	}
	if b := pub.Bounds(); b.Dx() != W || b.Dy() != H {
		return &Violation{Prop: "C06", Sig: "size:public", Detail: fmt.Sprintf("%s %s: decoded %dx%d, source %dx%d", p.Img, p.Opt, b.Dx(), b.Dy(), W, H)}
	}
	if yc, ok := pub.(*image.YCbCr); ok {
		// is the filter really off in the emitted stream? ask the independent decoder
		nf, _ := refDecodeVP8(fr.Bitstream, false)
		if nf != nil && sameYCbCr(nf, ry) == "" {
			// filtered == unfiltered: the stream has the loop filter disabled (or it is a no-op)
			if d := planeDiff("Y", rc.y, rc.ys, yc.Y, yc.YStride, W, H); d != "" {
				return &Violation{Prop: "C06", Sig: "drift:" + path + ":public-decode", Detail: fmt.Sprintf("%s %s: loop filter is off, yet webp.Decode differs from the encoder reconstruction: %s", p.Img, p.Opt, d)}
			}
			if d := planeDiff("Cb", rc.u, rc.uvs, yc.Cb, yc.CStride, cw, chh); d != "" {
				return &Violation{Prop: "C06", Sig: "drift:" + path + ":public-decode", Detail: d}
			}
			if d := planeDiff("Cr", rc.v, rc.uvs, yc.Cr, yc.CStride, cw, chh); d != "" {
				return &Violation{Prop: "C06", Sig: "drift:" + path + ":public-decode", Detail: d}
			}
			x.Count("filter_off_public_decode_verified", 1)
		}
	}
	return nil
}

func (propC06) Describe() PropDoc {
	return PropDoc{
		Rule: "one run = one lossy Encode (Method 0-6, passes, TargetSize/TargetPSNR, segments, partitions, sharp YUV, sizes not multiples of 16; 55 % tall enough for the row-pipelined encoder; 8 % rate-control cases with 2-4 segments, 2-10 passes and a target near what the picture needs; 2 % large uniform / patch / hole pictures) under a drawn worker count (30 % serial), schedule policy and pool behaviour; the encoder's reconstruction planes (verif hook) are compared, over the visible area, with this package's decoder before deblocking (second hook), with the x/image decoder before deblocking, and - when the emitted stream has the loop filter off - with the planes returned by webp.Decode. distinct = distinct (operation descriptor, explored-world trace hash).",
		Assumptions: []string{
			"the hook returns the planes the encoder holds at the end of EncodeFrame, which are the prediction reference it used (reconstruction is written back over the source planes)",
			"sampling over images/options/schedules: a clean batch is evidence, not proof",
		},
		Real:      []string{"every line of deepteams/webp incl. both encoder implementations (serial, row-pipelined), rewritten by simgen; two add-only verif-tagged hook calls in internal/lossy"},
		Simulated: []string{"worker count, schedule of the row pipeline and of the import/analysis fork-joins, pools"},
		Reference: []string{"the encoder's own reconstruction", "golang.org/x/image vp8 decoder (vendored) with its loop filter skipped"},
		MustReach: []string{"reconstructions_verified_serial", "reconstructions_verified_parallel", "filter_off_public_decode_verified", "cond_slow_path"},
	}
}
