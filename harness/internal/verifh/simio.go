package verifh

import (
	"errors"
	"io"

	"github.com/deepteams/webp/internal/vsim"
)

// Simulated caller-side I/O: a writer that delivers into a file of the simulated
// disk with crash-style faults, a reader that serves a stored file in pieces, and
// the disk (byte store) between them. Every call is a scheduling point.

var ErrInjected = errors.New("simio: injected I/O error")

// WriteFault describes the fault plan of one writer (part of the run parameters).
type WriteFault struct {
	Kind string `json:"kind"` // "", err_at_byte, err_on_write, short_write, disk_full
	At   int    `json:"at"`   // byte offset / write-call index / quota
}

type SimWriter struct {
	Data   []byte // what reached the disk
	Fault  WriteFault
	Calls  int
	Failed bool // sticky after the first failure
	Fired  bool
	Sizes  []int // size of each Write call (evidence)
}

func (w *SimWriter) Write(p []byte) (int, error) {
	if vsim.W != nil {
		vsim.Yield(vsim.OpIO, 1)
	}
	call := w.Calls
	w.Calls++
	if len(w.Sizes) < 64 {
		w.Sizes = append(w.Sizes, len(p))
	}
	if w.Failed {
		return 0, ErrInjected
	}
	if w.Fault.Kind == "transient_err" && call == w.Fault.At {
		// one failing Write; later Writes succeed again (a transient condition)
		w.Fired = true
		return 0, ErrInjected
	}
	switch w.Fault.Kind {
	case "err_on_write":
		if call == w.Fault.At {
			w.Failed, w.Fired = true, true
			return 0, ErrInjected
		}
	case "err_at_byte", "disk_full":
		if len(w.Data)+len(p) > w.Fault.At {
			n := w.Fault.At - len(w.Data)
			if n < 0 {
				n = 0
			}
			w.Data = append(w.Data, p[:n]...) // torn write: the part before the fault is on disk
			w.Failed, w.Fired = true, true
			return n, ErrInjected
		}
	case "short_write":
		if call == w.Fault.At && len(p) > 1 {
			n := len(p) / 2
			w.Data = append(w.Data, p[:n]...)
			w.Failed, w.Fired = true, true
			return n, io.ErrShortWrite
		}
	}
	w.Data = append(w.Data, p...)
	return len(p), nil
}

// ReadPlan describes how a stored file is delivered.
type ReadPlan struct {
	Seed     uint64 `json:"seed"`
	Mode     string `json:"mode"`      // whole, bytes, small, mixed
	HasLen   bool   `json:"has_len"`   // reader exposes Len() (selects readAll's exact-size branch)
	EOFWith  bool   `json:"eof_with"`  // last read returns (n>0, io.EOF)
	ZeroRead bool   `json:"zero_read"` // occasional (0, nil) reads
	ErrAt    int    `json:"err_at"`    // >=0: reading past this offset fails with ErrInjected
	// LenExtra > 0 (with HasLen): Len() announces this many bytes more than the reader
	// will deliver before EOF (a transfer with a known length that was cut)
	LenExtra int `json:"len_extra,omitempty"`
}

type SimReader struct {
	data  []byte
	pos   int
	plan  ReadPlan
	rng   *RNG
	zeros int
	Calls int
	Fired bool
}

func NewSimReader(data []byte, plan ReadPlan) io.Reader {
	r := &SimReader{data: data, plan: plan, rng: NewRNG(plan.Seed)}
	if plan.HasLen {
		return &simReaderLen{r}
	}
	return r
}

type simReaderLen struct{ *SimReader }

func (r *simReaderLen) Len() int { return len(r.data) - r.pos + r.plan.LenExtra }

func (r *SimReader) Read(p []byte) (int, error) {
	if vsim.W != nil {
		vsim.Yield(vsim.OpIO, 2)
	}
	r.Calls++
	if len(p) == 0 {
		return 0, nil
	}
	if r.plan.ErrAt >= 0 && r.pos >= r.plan.ErrAt {
		r.Fired = true
		return 0, ErrInjected
	}
	if r.pos >= len(r.data) {
		return 0, io.EOF
	}
	if r.plan.ZeroRead && r.zeros < 3 && r.rng.Pct(10) {
		r.zeros++
		return 0, nil
	}
	n := len(p)
	switch r.plan.Mode {
	case "bytes":
		n = 1
	case "small":
		n = 1 + r.rng.Intn(7)
	case "mixed":
		switch r.rng.Intn(4) {
		case 0:
			n = 1
		case 1:
			n = 1 + r.rng.Intn(16)
		case 2:
			n = 1 + r.rng.Intn(512)
		}
	}
	if n > len(p) {
		n = len(p)
	}
	rem := len(r.data) - r.pos
	if r.plan.ErrAt >= 0 && r.plan.ErrAt-r.pos < rem {
		rem = r.plan.ErrAt - r.pos
	}
	if n > rem {
		n = rem
	}
	copy(p, r.data[r.pos:r.pos+n])
	r.pos += n
	if r.pos == len(r.data) && r.plan.EOFWith {
		return n, io.EOF
	}
	return n, nil
}

func GenReadPlan(r *RNG, errPct int, size int) ReadPlan {
	p := ReadPlan{Seed: r.Next(), Mode: r.PickS("whole", "whole", "bytes", "small", "mixed", "mixed"), HasLen: r.Bool(), EOFWith: r.Bool(), ZeroRead: r.Pct(20), ErrAt: -1}
	if size > 4096 && p.Mode == "bytes" {
		p.Mode = "mixed"
	}
	if r.Pct(errPct) && size > 0 {
		p.ErrAt = r.Intn(size)
	}
	return p
}

func GenWriteFault(r *RNG, pct int, approxSize int) WriteFault {
	if !r.Pct(pct) {
		return WriteFault{}
	}
	switch r.Intn(5) {
	case 4:
		return WriteFault{Kind: "transient_err", At: r.Intn(3)}
	case 0:
		return WriteFault{Kind: "err_on_write", At: r.Intn(4)}
	case 1:
		return WriteFault{Kind: "err_at_byte", At: r.Intn(approxSize + 1)}
	case 2:
		return WriteFault{Kind: "short_write", At: r.Intn(3)}
	default:
		return WriteFault{Kind: "disk_full", At: r.Pick(0, 1, 11, 12, 19, 20, 21, 29, 30, 31, approxSize/2)}
	}
}
