package verifh

import (
	"encoding/json"
	"fmt"
	"sort"
	"strings"

	"github.com/deepteams/webp/internal/vsim"
)

// Violation is a property violation found by one execution.
type Violation struct {
	Prop   string `json:"property"`
	Sig    string `json:"signature"` // stable class: known-finding matching and minimisation
	Detail string `json:"detail"`
}

func (v *Violation) String() string { return fmt.Sprintf("%s [%s] %s", v.Prop, v.Sig, v.Detail) }

// Property is one checkable property. A "run" is Execute(Gen(seed)).
type Property interface {
	ID() string
	Level() string // exploration | fault_enumeration
	// Plan returns how many runs the tier performs in the plain and the -race build.
	Plan(tier string) (plain, race int)
	// Gen derives the run parameters (JSON-able pointer) from the run seed.
	Gen(seed uint64, tier string, idx int) any
	NewParams() any
	// Execute performs the run. It returns nil if the property held.
	Execute(p any, x *X) *Violation
	// Shrink proposes structurally smaller parameter sets (may return nil).
	Shrink(p any) []any
	// Describe fills the static parts of the evidence.
	Describe() PropDoc
}

type PropDoc struct {
	Rule        string
	Assumptions []string
	Real        []string
	Simulated   []string
	Reference   []string
	// probes that must be non-zero in a batch (self-check), per tier
	MustReach []string
}

// X is the execution context of one run.
type X struct {
	Tier  string
	Race  bool
	Stats *Stats
	Quiet bool // replay / minimisation: do not count into Stats

	ReplayDecisions []vsim.Decision
	ReplayMode      int
	Explored        *vsim.World // the explored world of this execution (decisions recorded here)
	Inconclusive    string
	// IsKnown reports whether a signature is an open known finding; NoteKnown records
	// one observation of it. Used by checks that can keep exploring past a known
	// finding inside one run (C12 re-bases its comparison).
	IsKnown   func(sig string) bool
	NoteKnown func(sig, detail string)
	Fingerprint     uint64 // mixes the trace hash and step count of every world of this run (determinism self-test)
	nontrivial      bool
	caseHash        uint64
	haveCase        bool
}

// Stats are accumulated by a worker over its runs and merged by the driver.
type Stats struct {
	Runs         int64            `json:"runs"`
	Steps        int64            `json:"steps"`
	Decisions    int64            `json:"decisions"`
	MultiPoints  int64            `json:"multi_points"`
	Tasks        int64            `json:"tasks"`
	Worlds       int64            `json:"worlds"`
	Probes       map[string]int64 `json:"probes"`
	Sites        map[string][2]int64 `json:"sites"`
	Faults       map[string]int64 `json:"faults_fired"`
	Counters     map[string]int64 `json:"counters"`
	Policies     map[string]int64 `json:"policies"`
	Inconclusive []string         `json:"inconclusive"`
	Samples      []any            `json:"samples"`
	hashes       map[uint64]struct{}
	nontrivial   map[uint64]struct{}
	workloads    map[uint64]struct{}
}

func NewStats() *Stats {
	return &Stats{Probes: map[string]int64{}, Sites: map[string][2]int64{}, Faults: map[string]int64{}, Counters: map[string]int64{}, Policies: map[string]int64{},
		hashes: map[uint64]struct{}{}, nontrivial: map[uint64]struct{}{}, workloads: map[uint64]struct{}{}}
}

func (s *Stats) Count(name string, n int64) {
	if s != nil {
		s.Counters[name] += n
	}
}

func (x *X) Count(name string, n int64) {
	if !x.Quiet {
		x.Stats.Count(name, n)
	}
}

func (x *X) Fault(kind string) {
	if !x.Quiet {
		x.Stats.Faults[kind]++
	}
}

// Case registers the identity of the case this run explored (for distinctness)
// and whether it is non-trivial by the property's rule.
func (x *X) Case(h uint64, nontrivial bool) {
	if x.Quiet {
		return
	}
	if nontrivial {
		x.Stats.nontrivial[h] = struct{}{}
	}
}

func (x *X) Workload(h uint64) {
	if !x.Quiet {
		x.Stats.workloads[h] = struct{}{}
	}
}

func (x *X) Sample(v any) {
	if !x.Quiet && len(x.Stats.Samples) < 4 {
		x.Stats.Samples = append(x.Stats.Samples, v)
	}
}

// Explore runs body under the simulator with the given configuration; if the
// context carries replay decisions they drive this world.
func (x *X) Explore(cfg vsim.Config, body func()) *vsim.World {
	w := vsim.NewWorld(cfg, x.ReplayDecisions, x.ReplayMode)
	x.Explored = w
	w.Run(body)
	x.mix(w)
	x.account(w)
	return w
}

// Solo runs body in a fresh world under the canonical schedule (pools always
// miss, lowest runnable task continues) with uniform worker count k.
func (x *X) Solo(k int, body func()) *vsim.World {
	w := vsim.NewWorld(vsim.Config{Policy: vsim.PolCanonical, Procs: k}, nil, 0)
	w.Run(body)
	x.mix(w)
	return w
}

func (x *X) mix(w *vsim.World) {
	x.Fingerprint = (x.Fingerprint ^ w.Hash) * 1099511628211
	x.Fingerprint = (x.Fingerprint ^ uint64(w.Steps)) * 1099511628211
}

func (x *X) account(w *vsim.World) {
	if x.Quiet {
		return
	}
	s := x.Stats
	s.Worlds++
	s.Steps += int64(w.Steps)
	s.MultiPoints += int64(w.Multi)
	s.Decisions += int64(len(w.Decisions()))
	s.Tasks += int64(w.NTasks())
	for i := 0; i < vsim.NProbes; i++ {
		s.Probes[vsim.ProbeNames[i]] += w.Probes[i]
	}
	for i, n := range w.OpCount {
		if n > 0 && i < len(vsim.OpNames) {
			s.Counters["op_"+vsim.OpNames[i]] += n
		}
	}
	for _, st := range w.SiteStats() {
		v := s.Sites[st.Name]
		v[0] += int64(st.Hits)
		v[1] += int64(st.Multi)
		s.Sites[st.Name] = v
	}
	s.Policies[vsim.PolicyNames[w.Cfg.Policy]]++
	s.hashes[w.Hash] = struct{}{}
}

// WorldViolation turns the generic failure states of a world into a violation
// (deadlock, panic) or an inconclusive marker (step budget, divergence).
func (x *X) WorldViolation(prop string, w *vsim.World) *Violation {
	if w.Aborted {
		switch w.AbortReason {
		case "deadlock":
			return &Violation{Prop: prop, Sig: "deadlock:" + normDeadlock(w.Deadlock), Detail: "no runnable task while some task has not exited: " + w.Deadlock}
		default:
			x.Inconclusive = w.AbortReason + " " + w.Diverged
			return nil
		}
	}
	if w.DoublePuts > 0 {
		return &Violation{Prop: prop, Sig: "pool-double-put", Detail: fmt.Sprintf("an object was returned to a sync.Pool that already held it (%d times): two later Gets hand the same object to two users", w.DoublePuts)}
	}
	if w.NPanics > 0 {
		p := w.Panics[0]
		return &Violation{Prop: prop, Sig: "panic:" + panicSite(p.Stack, p.Val), Detail: fmt.Sprintf("panic in task %d: %s\n%s", p.Task, p.Val, trimStack(p.Stack))}
	}
	return nil
}

// normDeadlock drops task and object numbers: the class is "who waits in what".
func normDeadlock(s string) string {
	parts := strings.Split(s, "; ")
	var ops []string
	for _, p := range parts {
		f := strings.Fields(p)
		for i, t := range f {
			if t == "in" && i+1 < len(f) {
				ops = append(ops, f[i+1])
			}
		}
	}
	sort.Strings(ops)
	// collapse duplicates
	var out []string
	for i, o := range ops {
		if i == 0 || ops[i-1] != o {
			out = append(out, o)
		}
	}
	return strings.Join(out, "+")
}

// panicSite returns the first library frame of a panic stack (function name).
func panicSite(stack, val string) string {
	lines := strings.Split(stack, "\n")
	for _, l := range lines {
		if strings.HasPrefix(l, "github.com/deepteams/webp") && !strings.Contains(l, "/internal/vsim") && !strings.Contains(l, "/internal/verifh") && !strings.Contains(l, "/internal/verifx") {
			if i := strings.LastIndex(l, "("); i > 0 {
				l = l[:i]
			}
			return strings.TrimPrefix(l, "github.com/deepteams/webp")
		}
	}
	v := val
	if len(v) > 60 {
		v = v[:60]
	}
	return "?" + v
}

func trimStack(s string) string {
	lines := strings.Split(s, "\n")
	if len(lines) > 40 {
		lines = lines[:40]
	}
	return strings.Join(lines, "\n")
}

// ReplayFile is what a VIOLATION line points to.
type ReplayFile struct {
	Property  string          `json:"property"`
	Signature string          `json:"signature"`
	Detail    string          `json:"detail"`
	Seed      uint64          `json:"seed"`
	RunSeed   uint64          `json:"run_seed"`
	Tier      string          `json:"tier"`
	Race      bool            `json:"race_build"`
	Params    json.RawMessage `json:"params"`
	// Decisions: flat triples kind,n,value of every scheduler/fault decision of
	// the explored world, in order. Empty + Strict=false means "drawn from the
	// PRNG of Params" (race reports, which kill the process before recording).
	Decisions []int `json:"decisions"`
	Strict    bool  `json:"strict"`
	// WarmupOnly: the race report fired during the fixed warm-up operation list
	// every process executes first (replay = run the warm-up).
	WarmupOnly bool `json:"warmup_only,omitempty"`
	// Cold: the run was the first use of the library in its process (no warm-up);
	// replay does the same.
	Cold bool `json:"cold,omitempty"`
	Minimised struct {
		From int `json:"decisions_before"`
		To   int `json:"non_default_decisions_after"`
	} `json:"minimised"`
}

func packDecisions(d []vsim.Decision) []int {
	out := make([]int, 0, 3*len(d))
	for _, x := range d {
		out = append(out, int(x.Kind), int(x.N), int(x.V))
	}
	return out
}

func unpackDecisions(a []int) []vsim.Decision {
	out := make([]vsim.Decision, 0, len(a)/3)
	for i := 0; i+2 < len(a); i += 3 {
		out = append(out, vsim.Decision{Kind: uint8(a[i]), N: uint16(a[i+1]), V: uint16(a[i+2])})
	}
	return out
}

// sigClass is the part of a signature that minimisation must preserve.
func sigClass(sig string) string {
	// the attribution prefix of a C10 difference (is pool reuse necessary?) may flip
	// while the trace is being shrunk; it is the same difference
	if strings.HasPrefix(sig, "pool-reuse:") {
		return "diff:" + strings.TrimPrefix(sig, "pool-reuse:")
	}
	return sig
}

// Minimise shrinks params structurally and the decision list by delta debugging
// while the same violation signature persists. Returns the final params, the
// strict decision list and the violation as re-observed.
func Minimise(prop Property, params any, dec []vsim.Decision, v *Violation, tier string, race bool, budget int, isKnown func(string) bool) (any, []vsim.Decision, *Violation, int) {
	tries := 0
	run := func(p any, d []vsim.Decision, mode int) (*Violation, []vsim.Decision) {
		tries++
		x := &X{Tier: tier, Race: race, Stats: NewStats(), Quiet: true, ReplayDecisions: d, ReplayMode: mode}
		if isKnown != nil {
			x.IsKnown = isKnown
			x.NoteKnown = func(string, string) {}
		}
		if d == nil {
			x.ReplayMode = 0
		}
		vv := prop.Execute(p, x)
		var rec []vsim.Decision
		if x.Explored != nil {
			rec = x.Explored.Decisions()
		}
		return vv, rec
	}
	same := func(vv *Violation) bool { return vv != nil && sigClass(vv.Sig) == sigClass(v.Sig) }

	// (i) structural: greedy descent over Shrink candidates, schedule drawn from
	// the PRNG of the candidate (a fresh search point), then from the decision list.
	cur, curDec := params, dec
	for tries < budget/2 {
		improved := false
		for _, c := range prop.Shrink(cur) {
			if tries >= budget/2 {
				break
			}
			if vv, rec := run(c, curDec, 1); same(vv) {
				cur, curDec, v = c, rec, vv
				improved = true
				break
			}
			if vv, rec := run(c, nil, 0); same(vv) {
				cur, curDec, v = c, rec, vv
				improved = true
				break
			}
		}
		if !improved {
			break
		}
	}
	// (ii) trace: ddmin on the decision list; a removed decision becomes "default"
	// (keep running the current task / no fault / pool miss).
	d := make([]vsim.Decision, len(curDec))
	copy(d, curDec)
	isDefault := func(x vsim.Decision) bool { return x.V == vsim.DefaultChoice }
	n := 2
	for tries < budget && len(d) > 0 {
		chunk := (len(d) + n - 1) / n
		progress := false
		for start := 0; start < len(d) && tries < budget; start += chunk {
			end := start + chunk
			if end > len(d) {
				end = len(d)
			}
			all := true
			for i := start; i < end; i++ {
				if !isDefault(d[i]) {
					all = false
				}
			}
			if all {
				continue
			}
			cand := make([]vsim.Decision, len(d))
			copy(cand, d)
			for i := start; i < end; i++ {
				cand[i].V = vsim.DefaultChoice
			}
			if vv, _ := run(cur, cand, 1); same(vv) {
				d = cand
				progress = true
			}
		}
		if !progress {
			if chunk <= 1 {
				break
			}
			n *= 2
			if n > len(d) {
				n = len(d)
			}
		}
	}
	// final: execute leniently once more and keep what was actually decided: that
	// list is self-consistent and replays strictly.
	vv, rec := run(cur, d, 1)
	if !same(vv) {
		// minimisation lost the failure (should not happen): fall back to the original
		vv, rec = run(params, dec, 1)
		cur = params
		if !same(vv) {
			return params, dec, nil, tries
		}
	}
	return cur, rec, vv, tries
}

func countNonDefault(prop Property, d []vsim.Decision) int {
	// a scheduling decision is "non-default" when it switched tasks although the
	// current one could continue; we cannot know that from the list alone, so count
	// decisions whose arity > 1 as an upper bound is useless. Instead report the
	// number of decisions that differ from the canonical value where known.
	n := 0
	for _, x := range d {
		if x.Kind != vsim.DSched && x.V != 0 {
			n++
		}
	}
	return n
}
