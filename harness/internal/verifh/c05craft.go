package verifh

import (
	"encoding/binary"
	"sort"
)

// Hand-crafted VP8L streams. Random damage of encoder output almost never forms a
// *well-formed* stream that uses a construct no encoder emits (a 2-D distance code
// pointing right of the current column on a picture narrower than 8 pixels, a
// colour-cache symbol before anything was inserted, a transform given twice, a
// colour-indexing transform that packs a 3 px wide picture into one word, several
// prefix-code groups selected by an entropy image ...). This writer produces such
// streams directly: small pictures, the smallest legal prefix codes (1-3 symbols per
// alphabet), a seeded mix of literals, colour-cache hits and backward references with
// arbitrary distance codes and lengths, optional transforms with their sub-images, an
// optional entropy image, streams that run out of bits. A good part of them is valid
// and must decode; the rest must be rejected with an error -- never a panic, a hang or
// an allocation out of proportion.

type bitW struct {
	buf []byte
	acc uint64
	n   uint
}

func (b *bitW) put(v uint32, n uint) {
	if n == 0 {
		return
	}
	b.acc |= uint64(v&(1<<n-1)) << b.n
	b.n += n
	for b.n >= 8 {
		b.buf = append(b.buf, byte(b.acc))
		b.acc >>= 8
		b.n -= 8
	}
}

func (b *bitW) bytes() []byte {
	if b.n > 0 {
		return append(b.buf, byte(b.acc))
	}
	return b.buf
}

// craftCode is a prefix code over 1..3 symbols: lengths (1) | (1,1) | (1,2,2).
type craftCode struct {
	syms []int // ascending
	code map[int][2]uint32
}

// putSym writes a symbol's code, most significant code bit first (the order in which a
// VP8L decoder consumes it).
func (b *bitW) putSym(c *craftCode, sym int) {
	cl := c.code[sym]
	for i := int(cl[1]) - 1; i >= 0; i-- {
		b.put(cl[0]>>uint(i)&1, 1)
	}
}

// writeCode emits the code's description for an alphabet of n symbols and returns it.
// short: index (into the ascending symbol list) of the symbol with the 1-bit code when
// there are three.
func (b *bitW) writeCode(n int, syms []int, short int) *craftCode {
	sort.Ints(syms)
	c := &craftCode{syms: syms, code: map[int][2]uint32{}}
	lens := make([]int, len(syms))
	switch len(syms) {
	case 1:
		lens[0] = 0
	case 2:
		lens[0], lens[1] = 1, 1
	default:
		for i := range lens {
			lens[i] = 2
		}
		lens[short] = 1
	}
	// canonical assignment: by (length, symbol)
	next := uint32(0)
	for l := 1; l <= 2; l++ {
		for i, s := range syms {
			if lens[i] == l {
				c.code[s] = [2]uint32{next, uint32(l)}
				next++
			}
		}
		next <<= 1
	}
	if len(syms) == 1 {
		c.code[syms[0]] = [2]uint32{0, 0}
	}
	if len(syms) <= 2 && syms[len(syms)-1] < 256 {
		b.put(1, 1) // simple code
		b.put(uint32(len(syms)-1), 1)
		if syms[0] < 2 {
			b.put(0, 1)
			b.put(uint32(syms[0]), 1)
		} else {
			b.put(1, 1)
			b.put(uint32(syms[0]), 8)
		}
		if len(syms) == 2 {
			b.put(uint32(syms[1]), 8)
		}
		return c
	}
	// normal code; code-length code: symbols 0,1,2,18 with two bits each
	b.put(0, 1)
	b.put(1, 4) // 5 code-length code lengths, order 17, 18, 0, 1, 2
	b.put(0, 3)
	b.put(2, 3)
	b.put(2, 3)
	b.put(2, 3)
	b.put(2, 3)
	b.put(0, 1) // code lengths for the whole alphabet follow
	emitCL := func(code uint32) { b.put(code>>1&1, 1); b.put(code&1, 1) }
	zeros := func(z int) {
		for z >= 11 {
			k := z
			if k > 138 {
				k = 138
			}
			emitCL(3) // symbol 18
			b.put(uint32(k-11), 7)
			z -= k
		}
		for ; z > 0; z-- {
			emitCL(0)
		}
	}
	pos := 0
	for i, s := range syms {
		zeros(s - pos)
		l := lens[i]
		if l == 0 {
			l = 1 // a lone symbol: one code of length 1
		}
		emitCL(uint32(l))
		pos = s + 1
	}
	zeros(n - pos)
	return c
}

type craftCodes struct {
	green, red, blue, alpha, dist *craftCode
	lits                          []int
	lenSym, cacheSym              int
}

func pickDistinct(r *RNG, n, limit int) []int {
	out := []int{}
	for len(out) < n {
		v := r.Intn(limit)
		dup := false
		for _, o := range out {
			dup = dup || o == v
		}
		if !dup {
			out = append(out, v)
		}
	}
	return out
}

func (b *bitW) writeCodes(r *RNG, cacheBits int, refs bool) *craftCodes {
	cc := &craftCodes{lenSym: -1, cacheSym: -1}
	g := []int{r.Pick(0, 0, 255, r.Intn(256))}
	cc.lits = []int{g[0]}
	if refs {
		cc.lenSym = 256 + r.Pick(0, 1, 2, 3, r.Intn(24), r.Intn(24))
		g = append(g, cc.lenSym)
	}
	if cacheBits > 0 && r.Pct(70) {
		cc.cacheSym = 280 + r.Intn(1<<cacheBits)
		g = append(g, cc.cacheSym)
	}
	if len(g) < 3 && r.Pct(40) {
		v := pickDistinct(r, 2, 256)
		l := v[0]
		if l == g[0] {
			l = v[1]
		}
		g = append(g, l)
		cc.lits = append(cc.lits, l)
	}
	n := 256 + 24
	if cacheBits > 0 {
		n += 1 << cacheBits
	}
	cc.green = b.writeCode(n, g, r.Intn(3))
	cc.red = b.writeCode(256, pickDistinct(r, r.Range(1, 2), 256), 0)
	cc.blue = b.writeCode(256, pickDistinct(r, r.Range(1, 2), 256), 0)
	a := pickDistinct(r, r.Range(1, 2), 256)
	if r.Bool() {
		a = []int{255}
	}
	cc.alpha = b.writeCode(256, a, 0)
	cc.dist = b.writeCode(40, pickDistinct(r, r.Range(1, 2), r.Pick(4, 14, 14, 40)), 0)
	return cc
}

func prefixExtraBits(p int) uint {
	if p < 4 {
		return 0
	}
	return uint((p - 2) >> 1)
}

// writePixels emits w*h pixels' worth of symbols (or deliberately fewer / more).
func (b *bitW) writePixels(r *RNG, cc *craftCodes, w, h int) {
	total := w * h
	if r.Pct(6) {
		total = r.Intn(total + 1) // the stream runs out of bits
	}
	any := func(c *craftCode) { b.putSym(c, c.syms[r.Intn(len(c.syms))]) }
	lit := r.Range(1, 6)
	for done := 0; done < total; {
		k := r.Intn(100)
		switch {
		case cc.lenSym >= 0 && done >= lit && k < 45:
			b.putSym(cc.green, cc.lenSym)
			p := cc.lenSym - 256
			eb := prefixExtraBits(p)
			ev := uint32(r.Next()) & (1<<eb - 1)
			b.put(ev, eb)
			length := p + 1
			if p >= 4 {
				length = (2+(p&1))<<eb + int(ev) + 1
			}
			d := cc.dist.syms[r.Intn(len(cc.dist.syms))]
			b.putSym(cc.dist, d)
			b.put(uint32(r.Next()), prefixExtraBits(d))
			done += length
		case cc.cacheSym >= 0 && k < 65:
			b.putSym(cc.green, cc.cacheSym)
			done++
		default:
			b.putSym(cc.green, cc.lits[r.Intn(len(cc.lits))])
			any(cc.red)
			any(cc.blue)
			any(cc.alpha)
			done++
		}
	}
}

// writeSubImage: an entropy-coded image without meta prefix codes (transform data,
// entropy image, palette).
func (b *bitW) writeSubImage(r *RNG, w, h int) {
	cb := 0
	if r.Pct(15) {
		cb = r.Range(1, 11)
		b.put(1, 1)
		b.put(uint32(cb), 4)
	} else {
		b.put(0, 1)
	}
	cc := b.writeCodes(r, cb, r.Pct(12))
	b.writePixels(r, cc, w, h)
}

func subSize(v, bits int) int { return (v + 1<<bits - 1) >> bits }

func craftVP8L(r *RNG) []byte {
	w, h := r.Range(1, 12), r.Range(1, 12)
	if r.Pct(50) {
		w = r.Range(1, 7)
	}
	var b bitW
	b.put(0x2f, 8)
	b.put(uint32(w-1), 14)
	b.put(uint32(h-1), 14)
	b.put(uint32(r.Intn(2)), 1) // alpha_is_used
	b.put(0, 3)                 // version
	used := map[int]bool{}
	nt := r.Pick(0, 0, 0, 1, 1, 2, 3)
	for i := 0; i < nt; i++ {
		t := r.Intn(4)
		if used[t] && !r.Pct(8) {
			continue // the same transform twice: only now and then
		}
		used[t] = true
		b.put(1, 1)
		b.put(uint32(t), 2)
		switch t {
		case 0, 1:
			bits := r.Range(2, 9)
			b.put(uint32(bits-2), 3)
			b.writeSubImage(r, subSize(w, bits), subSize(h, bits))
		case 3:
			n := r.Pick(1, 2, 3, 4, 5, 16, 17, 256, r.Range(1, 256))
			b.put(uint32(n-1), 8)
			b.writeSubImage(r, n, 1)
			switch {
			case n <= 2:
				w = subSize(w, 3)
			case n <= 4:
				w = subSize(w, 2)
			case n <= 16:
				w = subSize(w, 1)
			}
		}
	}
	b.put(0, 1) // no more transforms
	cb := 0
	if r.Pct(30) {
		cb = r.Range(1, 11)
		b.put(1, 1)
		b.put(uint32(cb), 4)
	} else {
		b.put(0, 1)
	}
	groups := 1
	if r.Pct(15) {
		// entropy image: every pixel selects the same group (red<<8 | green of the
		// sub-image's only literal), so the number of groups is that index + 1; all
		// groups carry the same codes
		b.put(1, 1)
		bits := r.Range(2, 9)
		b.put(uint32(bits-2), 3)
		gi := r.Intn(3)
		b.put(0, 1) // no colour cache in the entropy image
		sw, sh := subSize(w, bits), subSize(h, bits)
		b.writeCode(280, []int{gi}, 0) // green: the group index
		b.writeCode(256, []int{0}, 0)  // red
		b.writeCode(256, []int{r.Intn(256)}, 0)
		b.writeCode(256, []int{r.Intn(256)}, 0)
		b.writeCode(40, []int{0}, 0)
		_ = sw * sh // every symbol has a zero-length code: the pixels take no bits
		groups = gi + 1
	} else {
		b.put(0, 1)
	}
	gseed := r.Next()
	var cc *craftCodes
	for g := 0; g < groups; g++ {
		cc = b.writeCodes(NewRNG(gseed), cb, true)
	}
	b.writePixels(r, cc, w, h)
	b.put(0, 8)
	payload := b.bytes()
	if len(payload)%2 == 1 {
		payload = append(payload, 0)
	}
	out := make([]byte, 0, 20+len(payload))
	out = append(out, "RIFF"...)
	out = binary.LittleEndian.AppendUint32(out, uint32(4+8+len(payload)))
	out = append(out, "WEBPVP8L"...)
	out = binary.LittleEndian.AppendUint32(out, uint32(len(payload)))
	return append(out, payload...)
}
