package verifh

import "encoding/binary"

// Hand-crafted VP8L streams: pictures 1..12 pixels wide whose pixel data is a seeded
// mix of literals and backward references with arbitrary 2-D distance codes and
// lengths -- including the codes no encoder emits (reaching before the first pixel,
// distance zero after the row-relative mapping on pictures narrower than 8 pixels,
// copies that run past the end). The prefix codes are the smallest legal ones: green
// has two symbols (literal 0 and one length prefix), red/blue/alpha one symbol each,
// distance two symbols.

type bitW struct {
	buf []byte
	acc uint64
	n   uint
}

func (b *bitW) put(v uint32, n uint) {
	b.acc |= uint64(v&(1<<n-1)) << b.n
	b.n += n
	for b.n >= 8 {
		b.buf = append(b.buf, byte(b.acc))
		b.acc >>= 8
		b.n -= 8
	}
}

func (b *bitW) bytes() []byte {
	if b.n > 0 {
		return append(b.buf, byte(b.acc))
	}
	return b.buf
}

func craftVP8L(r *RNG) []byte {
	w, h := r.Range(1, 12), r.Range(1, 12)
	if r.Pct(50) {
		w = r.Range(1, 7)
	}
	var b bitW
	b.put(0x2f, 8)
	b.put(uint32(w-1), 14)
	b.put(uint32(h-1), 14)
	b.put(uint32(r.Intn(2)), 1) // alpha_is_used
	b.put(0, 3)                 // version
	b.put(0, 1)                 // no transform
	b.put(0, 1)                 // no colour cache
	b.put(0, 1)                 // no meta prefix codes
	// green: code lengths {0:1, L:1}, written with a code-length code {1:1 bit, 18:1 bit}
	L := 256 + r.Intn(4)
	b.put(0, 1)     // normal code
	b.put(0, 4)     // 4 code-length code lengths: order 17, 18, 0, 1
	b.put(0, 3)     // 17
	b.put(1, 3)     // 18
	b.put(0, 3)     // 0
	b.put(1, 3)     // 1
	b.put(1, 1)     // max_symbol given
	b.put(0, 3)     // length_nbits = 2
	b.put(2, 2)     // max_symbol = 4 tokens
	b.put(0, 1)     // token "1": symbol 0 has length 1
	b.put(1, 1)     // token 18
	b.put(127, 7)   // 138 zeros
	b.put(1, 1)     // token 18
	b.put(uint32(L-1-138-11), 7)
	b.put(0, 1) // token "1": symbol L has length 1
	single := func(sym int) {
		b.put(1, 1) // simple code
		b.put(0, 1) // one symbol
		b.put(1, 1) // 8-bit symbol
		b.put(uint32(sym), 8)
	}
	single(r.Intn(256)) // red
	single(r.Intn(256)) // blue
	single(r.Pick(255, 255, 0, r.Intn(256)))
	// distance: two symbols
	s0 := r.Intn(13)
	s1 := s0 + 1 + r.Intn(14-s0-1+1)
	if s1 > 14 {
		s1 = 14
	}
	if s1 == s0 {
		s1 = s0 + 1
	}
	b.put(1, 1)
	b.put(1, 1) // two symbols
	b.put(1, 1) // 8-bit first symbol
	b.put(uint32(s0), 8)
	b.put(uint32(s1), 8)
	// pixel data
	n := w*h + r.Intn(4)
	if r.Pct(10) {
		n = r.Intn(w*h + 1) // runs out of bits
	}
	lit := r.Range(1, 6)
	for i := 0; i < n; i++ {
		if i < lit || r.Pct(40) {
			b.put(0, 1)
			continue
		}
		b.put(1, 1)
		s := s0
		if r.Bool() {
			b.put(1, 1)
			s = s1
		} else {
			b.put(0, 1)
		}
		if s >= 4 {
			b.put(uint32(r.Next()), uint((s-2)>>1))
		}
	}
	b.put(0, 8)
	payload := b.bytes()
	if len(payload)%2 == 1 {
		payload = append(payload, 0)
	}
	out := make([]byte, 0, 20+len(payload))
	out = append(out, "RIFF"...)
	out = binary.LittleEndian.AppendUint32(out, uint32(4+8+len(payload)))
	out = append(out, "WEBPVP8L"...)
	out = binary.LittleEndian.AppendUint32(out, uint32(len(payload)))
	return append(out, payload...)
}
