package verifh

import (
	"bytes"
	"encoding/binary"
	"fmt"

	webp "github.com/deepteams/webp"
	"github.com/deepteams/webp/internal/container"
	"github.com/deepteams/webp/internal/vsim"
	"github.com/deepteams/webp/mux"
)

// C14 — muxing then demuxing returns exactly what was put in.
// Histories of Muxer calls, writer faults during Assemble, and a reference model
// of the muxer state as the oracle for *content*; whether Assemble accepts is the
// muxer's own decision.

type FrameSrc struct {
	Img      ImgSpec `json:"img"`
	Opt      OptSpec `json:"opt"`
	WithAlph bool    `json:"with_alph"` // lossy+alpha: prefix the frame data with its ALPH chunk
	// OddAlph: alpha data the container has no place for: "lossless" = an ALPH chunk in
	// front of a VP8L bitstream, "empty" = an ALPH chunk without payload in front of a VP8
	// bitstream. Whether AddFrame/Assemble take it is the muxer's decision; what comes out
	// must be a valid file.
	OddAlph string `json:"odd_alph,omitempty"`
}

type MuxCall struct {
	Kind string `json:"kind"` // addframe setdispose setduration setcanvas setloop setbg seticc setexif setxmp addchunk
	Src  int    `json:"src,omitempty"`
	Nil  bool   `json:"nil_opts,omitempty"`
	A    int    `json:"a,omitempty"`
	B    int    `json:"b,omitempty"`
	C    int    `json:"c,omitempty"`
	D    int    `json:"d,omitempty"`
	E    int    `json:"e,omitempty"`
	Len  int    `json:"len,omitempty"` // metadata length, -1 = nil
	ID   string `json:"id,omitempty"`
}

type MuxSpec struct {
	Seed  uint64     `json:"seed"`
	Srcs  []FrameSrc `json:"srcs"`
	Calls []MuxCall  `json:"calls"`
}

func (m MuxSpec) String() string {
	s := fmt.Sprintf("mux srcs=%d calls[", len(m.Srcs))
	if len(m.Calls) > 40 {
		return s + fmt.Sprintf("%d calls, first %s ...]", len(m.Calls), m.Calls[0].Kind)
	}
	for _, c := range m.Calls {
		switch c.Kind {
		case "addframe":
			s += fmt.Sprintf("addframe(src%d nil=%v dur=%d off=%d,%d blend=%d disp=%d) ", c.Src, c.Nil, c.A, c.B, c.C, c.D, c.E)
		case "seticc", "setexif", "setxmp":
			s += fmt.Sprintf("%s(%d) ", c.Kind, c.Len)
		case "addchunk":
			s += fmt.Sprintf("addchunk(%s,%d) ", c.ID, c.Len)
		default:
			s += fmt.Sprintf("%s(%d,%d) ", c.Kind, c.A, c.B)
		}
	}
	return s + "]"
}

type C14Params struct {
	Sched SchedSpec  `json:"sched"`
	Spec  MuxSpec    `json:"spec"`
	WF    WriteFault `json:"write_fault"`
	// Prior: another muxer history assembled first in the same world (pooled buffers
	// and any state shared between Muxer values are then used, not fresh)
	Prior *MuxSpec `json:"prior,omitempty"`
	// Mid: the same Muxer is assembled once more in the middle of the history, after
	// MidAfter calls, into a writer with fault MidWF (a Muxer is used for a file, the
	// write fails or the caller goes on adding frames, and it is assembled again)
	Mid      bool       `json:"mid,omitempty"`
	MidAfter int        `json:"mid_after,omitempty"`
	MidWF    WriteFault `json:"mid_wf,omitempty"`
}

type propC14 struct{}

func (propC14) ID() string     { return "C14" }
func (propC14) Level() string  { return "exploration" }
func (propC14) NewParams() any { return &C14Params{} }
func (propC14) Plan(tier string) (int, int) {
	if tier == "thorough" {
		return 6000000, 0
	}
	return 20000, 0
}

func GenMuxSpec(r *RNG, maxFrames int) MuxSpec {
	m := MuxSpec{Seed: r.Next()}
	ns := r.Range(1, 4)
	for i := 0; i < ns; i++ {
		var s FrameSrc
		if r.Bool() {
			s.Img = GenImgSpec(r, 1, 20, 1)
			s.Opt = GenLosslessOpts(r, 0)
			s.Opt.Method = r.Intn(4)
		} else {
			s.Img = GenImgSpec(r, 1, 20, 1)
			s.Opt = GenLossyOpts(r, 0, false)
			s.Opt.Method = r.Intn(4)
			s.WithAlph = r.Pct(70)
		}
		switch s.Img.Type {
		case "paletted", "nrgba64", "sub", "gray", "ycbcr", "nrgba64sub", "palsub", "rgbasub", "graysub":
			s.Img.Type = "nrgba"
		}
		if r.Pct(3) {
			if s.Opt.Lossless {
				s.OddAlph = "lossless"
			} else {
				s.OddAlph, s.WithAlph = "empty", false
			}
		}
		m.Srcs = append(m.Srcs, s)
	}
	nf := r.Range(1, maxFrames)
	if r.Pct(35) {
		nf = 1
	}
	frames := 0
	ncalls := nf + r.Intn(6)
	for i := 0; i < ncalls || frames == 0; i++ {
		k := r.Intn(12)
		if frames < nf && (k < 5 || i >= ncalls) {
			c := MuxCall{Kind: "addframe", Src: r.Intn(ns), Nil: r.Pct(25)}
			if !c.Nil {
				c.A = r.Pick(0, 0, 1, 40, 1000, 1<<24-1, 1<<24, -5)
				if r.Pct(50) {
					c.B, c.C = r.Intn(12), r.Intn(12)
				}
				if r.Pct(6) {
					// offsets the container cannot store (24 bits of offset/2) or that make no sense
					c.B = r.Pick(-2, -1, -3, 1<<24-2, 1<<24, 1<<25-2, 1<<25, 1<<31-1, c.B)
					c.C = r.Pick(-2, -1, 1<<24, 1<<25, c.C, c.C, c.C)
				}
				c.D, c.E = r.Intn(2), r.Intn(2)
			}
			m.Calls = append(m.Calls, c)
			frames++
			continue
		}
		switch k {
		case 5:
			m.Calls = append(m.Calls, MuxCall{Kind: "setdispose", A: r.Range(-1, nf), B: r.Intn(2)})
		case 6:
			m.Calls = append(m.Calls, MuxCall{Kind: "setduration", A: r.Range(-1, nf), B: r.Pick(0, 1, 100, 1<<24-1, 1<<24+5, -1)})
		case 7:
			m.Calls = append(m.Calls, MuxCall{Kind: "setcanvas", A: r.Pick(0, 1, 16, 32, 40, 64, 20000, 40000, 32768), B: r.Pick(0, 1, 16, 32, 40, 64, 64, 32768, 40000)})
		case 8:
			m.Calls = append(m.Calls, MuxCall{Kind: "setloop", A: r.Pick(0, 1, 7, 65535, 65536, -1)})
		case 9:
			m.Calls = append(m.Calls, MuxCall{Kind: "setbg", A: int(uint32(r.Next()))})
		case 10:
			m.Calls = append(m.Calls, MuxCall{Kind: r.PickS("seticc", "setexif", "setxmp"), Len: r.Pick(-1, 0, 1, 2, 7, 8, 33)})
		case 11:
			m.Calls = append(m.Calls, MuxCall{Kind: "addchunk", ID: r.PickS("ICCP", "EXIF", "XMP ", "ZZZZ", "ZZZZ", "abcd", "Q1 #", "ALPH", "VP8 ", "ANMF", "VP8X", "ANIM", "VP8L"), Len: r.Pick(-1, 0, 1, 4, 9, 26)})
		}
	}
	return m
}

func (propC14) Gen(seed uint64, tier string, idx int) any {
	r := NewRNG(seed)
	p := &C14Params{Spec: GenMuxSpec(r, 8)}
	if idx%1500 == 7 {
		// the frame-count cap: exactly at, just below and just above the limit
		p.Spec = GenMuxSpec(r, 1)
		p.Spec.Srcs = p.Spec.Srcs[:1]
		p.Spec.Srcs[0].Img.W, p.Spec.Srcs[0].Img.H = 1, 1
		n := r.Pick(9999, 10000, 10000, 10001)
		p.Spec.Calls = nil
		for i := 0; i < n; i++ {
			p.Spec.Calls = append(p.Spec.Calls, MuxCall{Kind: "addframe", Src: 0, A: 10})
		}
	}
	p.Sched = SchedSpec{Seed: r.Next(), Policy: vsim.PolCanonical, Procs: 1}
	if r.Pct(30) && idx%1500 != 7 {
		pm := GenMuxSpec(r, 6)
		p.Prior = &pm
		p.Sched.RandomPools, p.Sched.PoolHitPct = true, 100
	}
	if r.Pct(25) && idx%1500 != 7 {
		p.Mid, p.MidAfter = true, r.Intn(len(p.Spec.Calls)+1)
		if r.Pct(60) {
			p.MidWF = WriteFault{Kind: r.PickS("err_on_write", "err_on_write", "err_at_byte", "transient_err"), At: r.Intn(10)}
		}
	}
	if r.Pct(30) {
		// error at each of Assemble's Write calls in turn
		p.WF = WriteFault{Kind: "err_on_write", At: r.Intn(14)}
		if r.Pct(30) {
			p.WF = WriteFault{Kind: r.PickS("err_at_byte", "short_write", "disk_full"), At: r.Intn(120)}
		}
	}
	return p
}

func (propC14) Shrink(pp any) []any {
	p := pp.(*C14Params)
	var out []any
	for i := range p.Spec.Calls {
		q := *p
		q.Spec.Calls = append(append([]MuxCall{}, p.Spec.Calls[:i]...), p.Spec.Calls[i+1:]...)
		if q.MidAfter > i {
			q.MidAfter--
		}
		out = append(out, &q)
	}
	if p.Mid {
		q := *p
		q.Mid, q.MidAfter, q.MidWF = false, 0, WriteFault{}
		out = append(out, &q)
	}
	if p.Prior != nil {
		q := *p
		q.Prior = nil
		out = append(out, &q)
	}
	return out
}

// frame blobs --------------------------------------------------------------

type frameBlob struct {
	blob      []byte // what is handed to AddFrame
	alpha     []byte // expected ALPH payload (nil if none)
	bitstream []byte
	w, h      int
	lossless  bool
	picDigest string // digest of webp.Decode of the source file
	srcFile   []byte
}

var blobMemo = map[string]*frameBlob{}

// blobFor must be called outside any world.
func blobFor(s FrameSrc) *frameBlob {
	k := fileKey(s.Img, s.Opt) + fmt.Sprint(s.WithAlph) + s.OddAlph
	if b, ok := blobMemo[k]; ok {
		return b
	}
	var fb *frameBlob
	file := FileFor(s.Img, s.Opt)
	if file != nil {
		if wf, err := Walk(file); err == nil && len(wf.Frames) == 1 {
			fr := wf.Frames[0]
			fb = &frameBlob{bitstream: fr.Bitstream, w: fr.BsW, h: fr.BsH, lossless: fr.Lossless, srcFile: file}
			if fr.Alph != nil && s.WithAlph {
				fb.alpha = fr.Alph
				var hdr [8]byte
				copy(hdr[:4], "ALPH")
				binary.LittleEndian.PutUint32(hdr[4:], uint32(len(fr.Alph)))
				fb.blob = append(fb.blob, hdr[:]...)
				fb.blob = append(fb.blob, fr.Alph...)
				if len(fr.Alph)&1 == 1 {
					fb.blob = append(fb.blob, 0)
				}
				fb.blob = append(fb.blob, fr.Bitstream...)
			} else {
				fb.blob = fr.Bitstream
			}
			if s.OddAlph != "" {
				var a []byte
				if s.OddAlph == "lossless" {
					a = make([]byte, 1+fr.BsW*fr.BsH) // uncompressed, unfiltered, fully transparent
				} else {
					a = []byte{}
				}
				fb.alpha = a
				var hdr [8]byte
				copy(hdr[:4], "ALPH")
				binary.LittleEndian.PutUint32(hdr[4:], uint32(len(a)))
				fb.blob = append(append(append([]byte{}, hdr[:]...), a...), make([]byte, len(a)&1)...)
				fb.blob = append(fb.blob, fr.Bitstream...)
			}
		}
	}
	if len(blobMemo) > 3000 {
		blobMemo = map[string]*frameBlob{}
	}
	blobMemo[k] = fb
	return fb
}

// reference model -----------------------------------------------------------

type modelFrame struct {
	fb                      *frameBlob
	dur, offX, offY         int
	blendNone, disposeBG    bool
}

type muxModel struct {
	frames         []modelFrame
	icc, exif, xmp []byte
	hasICC, hasEXIF, hasXMP bool
	bg             uint32
	loop           int
	cw, ch         int
	// chunks with ids the format leaves to applications, as last accepted by AddChunk
	// (only ids that are not part of the container's own structure are tracked)
	unknown []modelChunk
}

type modelChunk struct {
	id   string
	data []byte
}

// structuralID: chunk ids with a meaning of their own in the container; whether AddChunk
// takes them is the muxer's decision and the model expects nothing for them (the walker
// still decides whether the file is valid).
func structuralID(id string) bool {
	switch id {
	case "VP8X", "ANIM", "ANMF", "VP8 ", "VP8L", "ALPH", "ICCP", "EXIF", "XMP ", "RIFF", "WEBP", "FRGM":
		return true
	}
	return false
}

func (md *muxModel) setUnknown(id string, data []byte) {
	out := md.unknown[:0:0]
	for _, c := range md.unknown {
		if c.id != id {
			out = append(out, c)
		}
	}
	if data != nil {
		out = append(out, modelChunk{id, data})
	}
	md.unknown = out
}

func clampInt(v, lo, hi int) int {
	if v < lo {
		return lo
	}
	if v > hi {
		return hi
	}
	return v
}

// callerMem is the memory the simulated caller hands to the muxer: every frame and
// metadata payload is a sub-slice of one buffer, directly followed by the next payload
// (as when a caller cuts its inputs out of one file or network buffer), so a muxer that
// writes past the end of a slice it was given damages the payload behind it. The model
// keeps pristine copies.
type callerMem struct {
	buf   []byte
	frame [][]byte
}

func newCallerMem(blobs []*frameBlob) *callerMem {
	n := 0
	for _, b := range blobs {
		if b != nil {
			n += len(b.blob)
		}
	}
	cm := &callerMem{buf: make([]byte, 0, n+1<<10)}
	for _, b := range blobs {
		if b == nil {
			cm.frame = append(cm.frame, nil)
			continue
		}
		cm.frame = append(cm.frame, cm.put(b.blob))
	}
	return cm
}

// put copies b behind everything handed out so far and returns that sub-slice (its
// capacity reaches into whatever is put later). nil stays nil.
func (cm *callerMem) put(b []byte) []byte {
	if b == nil {
		return nil
	}
	if len(cm.buf)+len(b) > cap(cm.buf) {
		return append([]byte{}, b...) // out of room: a plain copy (never reallocate: earlier slices alias buf)
	}
	start := len(cm.buf)
	cm.buf = append(cm.buf, b...)
	return cm.buf[start:len(cm.buf)]
}

// applyCalls drives both the real muxer and the model with the same history.
func applyCalls(spec MuxSpec, blobs []*frameBlob, m *mux.Muxer, md *muxModel, cm *callerMem) {
	if cm == nil {
		cm = newCallerMem(blobs)
	}
	for _, c := range spec.Calls {
		switch c.Kind {
		case "addframe":
			fb := blobs[c.Src]
			if fb == nil {
				continue
			}
			var err error
			if c.Nil {
				err = m.AddFrame(cm.frame[c.Src], nil)
			} else {
				err = m.AddFrame(cm.frame[c.Src], &mux.FrameOptions{Duration: c.A, OffsetX: c.B, OffsetY: c.C, BlendMode: mux.BlendMode(c.D), DisposeMode: mux.DisposeMode(c.E)})
			}
			if err == nil {
				mf := modelFrame{fb: fb}
				if !c.Nil {
					mf.dur, mf.offX, mf.offY = clampInt(c.A, 0, 1<<24-1), c.B, c.C
					mf.blendNone = mux.BlendMode(c.D) == mux.BlendNone
					mf.disposeBG = mux.DisposeMode(c.E) == mux.DisposeBackground
				} else {
					mf.blendNone = mux.BlendMode(0) == mux.BlendNone
					mf.disposeBG = mux.DisposeMode(0) == mux.DisposeBackground
				}
				md.frames = append(md.frames, mf)
			}
		case "setdispose":
			m.SetFrameDisposeMode(c.A, mux.DisposeMode(c.B))
			if c.A >= 0 && c.A < len(md.frames) {
				md.frames[c.A].disposeBG = mux.DisposeMode(c.B) == mux.DisposeBackground
			}
		case "setduration":
			m.SetFrameDuration(c.A, c.B)
			if c.A >= 0 && c.A < len(md.frames) {
				md.frames[c.A].dur = clampInt(c.B, 0, 1<<24-1)
			}
		case "setcanvas":
			m.SetCanvasSize(c.A, c.B)
			md.cw, md.ch = c.A, c.B
		case "setloop":
			m.SetLoopCount(c.A)
			md.loop = clampInt(c.A, 0, 65535)
		case "setbg":
			m.SetBackgroundColor(uint32(c.A))
			md.bg = uint32(c.A)
		case "seticc":
			b := metaBlob(spec.Seed, "icc", c.Len)
			m.SetICCProfile(cm.put(b))
			md.icc, md.hasICC = b, b != nil
		case "setexif":
			b := metaBlob(spec.Seed, "exif", c.Len)
			m.SetEXIF(cm.put(b))
			md.exif, md.hasEXIF = b, b != nil
		case "setxmp":
			b := metaBlob(spec.Seed, "xmp", c.Len)
			m.SetXMP(cm.put(b))
			md.xmp, md.hasXMP = b, b != nil
		case "addchunk":
			b := metaBlob(spec.Seed, "chunk"+c.ID, c.Len)
			id := binary.LittleEndian.Uint32([]byte(c.ID))
			if err := m.AddChunk(id, cm.put(b)); err == nil {
				switch c.ID {
				case "ICCP":
					md.icc, md.hasICC = b, b != nil
				case "EXIF":
					md.exif, md.hasEXIF = b, b != nil
				case "XMP ":
					md.xmp, md.hasXMP = b, b != nil
				default:
					if !structuralID(c.ID) {
						md.setUnknown(c.ID, b)
					}
				}
			}
		}
	}
}

func (propC14) Execute(pp any, x *X) *Violation {
	p := pp.(*C14Params)
	blobs := make([]*frameBlob, len(p.Spec.Srcs))
	for i, s := range p.Spec.Srcs {
		blobs[i] = blobFor(s)
	}
	var md muxModel
	wr := &SimWriter{Fault: p.WF}
	var asmErr error
	var viol *Violation
	var priorBlobs []*frameBlob
	midFired, midChecked := false, false
	if p.Prior != nil {
		priorBlobs = make([]*frameBlob, len(p.Prior.Srcs))
		for i, s := range p.Prior.Srcs {
			priorBlobs[i] = blobFor(s)
		}
	}
	w := x.Explore(p.Sched.Config(), func() {
		if p.Prior != nil {
			pm := mux.NewMuxer()
			var pmd muxModel
			applyCalls(*p.Prior, priorBlobs, pm, &pmd, nil)
			pm.Assemble(&SimWriter{})
		}
		m := mux.NewMuxer()
		cm := newCallerMem(blobs)
		if p.Mid && p.MidAfter <= len(p.Spec.Calls) {
			first, rest := p.Spec, p.Spec
			first.Calls, rest.Calls = p.Spec.Calls[:p.MidAfter], p.Spec.Calls[p.MidAfter:]
			applyCalls(first, blobs, m, &md, cm)
			mw := &SimWriter{Fault: p.MidWF}
			midErr := m.Assemble(mw)
			midFired = mw.Fired
			if mw.Fired && midErr == nil {
				viol = &Violation{Prop: "C14", Sig: "write-fault-swallowed:" + p.MidWF.Kind, Detail: fmt.Sprintf("%s: a Write of the first Assemble failed (%s at %d) but Assemble returned nil", first, p.MidWF.Kind, p.MidWF.At)}
				return
			}
			if midErr == nil && !mw.Fired {
				snap := md
				snap.frames = append([]modelFrame{}, md.frames...)
				snap.unknown = append([]modelChunk{}, md.unknown...)
				q := *p
				q.Spec = first
				if viol = checkMuxOutput(&q, &snap, mw.Data); viol != nil {
					return
				}
				midChecked = true
			}
			applyCalls(rest, blobs, m, &md, cm)
		} else {
			applyCalls(p.Spec, blobs, m, &md, cm)
		}
		asmErr = m.Assemble(wr)
		if asmErr != nil || wr.Fired {
			return
		}
		viol = checkMuxOutput(p, &md, wr.Data)
	})
	if viol != nil && p.Mid {
		viol.Detail = fmt.Sprintf("[the Muxer was assembled before, after %d calls, write fault %+v] ", p.MidAfter, p.MidWF) + viol.Detail
	}
	if midFired {
		x.Fault("first_assemble_write_" + p.MidWF.Kind)
	}
	if midChecked {
		x.Count("muxers_assembled_twice_both_verified", 1)
	}
	if p.Mid {
		x.Count("muxers_assembled_mid_history", 1)
	}
	x.Case(hashString(p.Spec.String())^uint64(p.WF.At)<<32^hashString(p.WF.Kind), len(md.frames) > 0)
	x.Workload(hashString(p.Spec.String()))
	x.Count("muxer_calls", int64(len(p.Spec.Calls)))
	x.Count("assemble_write_calls", int64(wr.Calls))
	x.Sample(map[string]any{"spec": p.Spec.String(), "write_fault": p.WF, "assemble_error": fmt.Sprint(asmErr), "bytes": len(wr.Data)})
	if v := x.WorldViolation("C14", w); v != nil {
		return v
	}
	if wr.Fired {
		x.Fault("assemble_write_" + p.WF.Kind)
		if asmErr == nil {
			return &Violation{Prop: "C14", Sig: "write-fault-swallowed:" + p.WF.Kind, Detail: fmt.Sprintf("%s: Write #%d of Assemble failed (%s at %d) but Assemble returned nil", p.Spec, wr.Calls, p.WF.Kind, p.WF.At)}
		}
		x.Count("write_fault_surfaced_as_error", 1)
		return nil
	}
	if asmErr != nil {
		x.Count("assemble_rejected", 1)
		return nil
	}
	if viol != nil {
		return viol
	}
	x.Count("assembled_files_verified", 1)
	return nil
}

func sameBytes(a, b []byte) bool { return len(a) == len(b) && bytes.Equal(a, b) }

func checkMuxOutput(p *C14Params, md *muxModel, data []byte) *Violation {
	spec := p.Spec
	bad := func(sig, format string, a ...any) *Violation {
		return &Violation{Prop: "C14", Sig: sig, Detail: spec.String() + ": " + fmt.Sprintf(format, a...)}
	}
	kind := "still"
	// (1) the harness's own walker
	wf, err := Walk(data)
	if err != nil {
		alph := false
		for _, f := range md.frames {
			if f.fb.alpha != nil {
				alph = true
			}
		}
		if len(md.frames) > 1 {
			kind = "anim"
		}
		return bad(fmt.Sprintf("corrupt-file:%s:alph=%v:%s", kind, alph, errClass(err)), "Assemble returned nil, the %d bytes written are not a structurally valid WebP container: %v", len(data), err)
	}
	if wf.Trailing != 0 {
		return bad("corrupt-file:trailing", "%d bytes after the RIFF chunk", wf.Trailing)
	}
	if wf.Animated {
		kind = "anim"
	}
	if !wf.Animated {
		for i, f := range md.frames {
			if f.dur > 0 {
				return bad("duration-lost:still", "frame %d has duration %d ms but the file is written as a still image, which cannot carry it", i, f.dur)
			}
		}
	}
	if len(wf.Frames) != len(md.frames) {
		return bad("frame-count:"+kind, "%d frames added, file has %d", len(md.frames), len(wf.Frames))
	}
	// expected canvas
	ecw, ech := md.cw, md.ch
	if ecw > 16777216 {
		ecw = 16777216
	}
	if !(md.cw > 0 && md.ch > 0) {
		ecw, ech = 0, 0
		for _, f := range md.frames {
			ox, oy := f.offX, f.offY
			if ox+f.fb.w > ecw {
				ecw = ox + f.fb.w
			}
			if oy+f.fb.h > ech {
				ech = oy + f.fb.h
			}
		}
	}
	if wf.HasVP8X && (wf.CanvasW != ecw || wf.CanvasH != ech) {
		return bad("canvas:"+kind, "canvas %dx%d expected, file says %dx%d", ecw, ech, wf.CanvasW, wf.CanvasH)
	}
	for i, f := range md.frames {
		g := wf.Frames[i]
		if !sameBytes(g.Bitstream, f.fb.bitstream) {
			return bad("bitstream:"+kind, "frame %d: bitstream differs (%d bytes in, %d bytes out)", i, len(f.fb.bitstream), len(g.Bitstream))
		}
		if !sameBytes(g.Alph, f.fb.alpha) || (g.Alph == nil) != (f.fb.alpha == nil) {
			return bad("alpha-payload:"+kind, "frame %d: alpha payload differs (%d bytes in, present=%v; %d bytes out, present=%v)", i, len(f.fb.alpha), f.fb.alpha != nil, len(g.Alph), g.Alph != nil)
		}
		if wf.Animated {
			if g.X != f.offX/2*2 || g.Y != f.offY/2*2 {
				return bad("offset", "frame %d: offset (%d,%d) must be stored as (%d,%d), file says (%d,%d)", i, f.offX, f.offY, f.offX/2*2, f.offY/2*2, g.X, g.Y)
			}
			if g.Duration != f.dur {
				return bad("duration", "frame %d: duration %d stored as %d", i, f.dur, g.Duration)
			}
			if g.Blend == f.blendNone {
				return bad("blend", "frame %d: blend-none=%v stored as blend=%v", i, f.blendNone, g.Blend)
			}
			if g.DisposeBG != f.disposeBG {
				return bad("dispose", "frame %d: dispose-background=%v stored as %v", i, f.disposeBG, g.DisposeBG)
			}
		}
	}
	if wf.Animated {
		if wf.Loop != md.loop {
			return bad("loop", "loop %d stored as %d", md.loop, wf.Loop)
		}
		if wf.Bg != md.bg {
			return bad("background", "background %#x stored as %#x", md.bg, wf.Bg)
		}
	}
	if wf.HasICC != md.hasICC || wf.HasEXIF != md.hasEXIF || wf.HasXMP != md.hasXMP || !sameBytes(wf.ICC, md.icc) || !sameBytes(wf.EXIF, md.exif) || !sameBytes(wf.XMP, md.xmp) {
		return bad("metadata", "metadata differs: ICC %v/%d vs %v/%d, EXIF %v/%d vs %v/%d, XMP %v/%d vs %v/%d", md.hasICC, len(md.icc), wf.HasICC, len(wf.ICC), md.hasEXIF, len(md.exif), wf.HasEXIF, len(wf.EXIF), md.hasXMP, len(md.xmp), wf.HasXMP, len(wf.XMP))
	}
	// application chunks accepted by AddChunk must be in the file
	for _, u := range md.unknown {
		found := false
		for _, c := range wf.Unknown {
			if c.FourCC == u.id && sameBytes(c.Data, u.data) {
				found = true
			}
		}
		if !found {
			return bad("chunk-lost:"+kind, "AddChunk(%q, %d bytes) returned nil but the assembled file has no such chunk (top-level chunks with other ids: %d)", u.id, len(u.data), len(wf.Unknown))
		}
	}
	// ... and nothing else: a chunk nobody added is metadata that was not put in
	for _, c := range wf.Unknown {
		found := false
		for _, u := range md.unknown {
			if c.FourCC == u.id && sameBytes(c.Data, u.data) {
				found = true
			}
		}
		if !found {
			return bad("chunk-invented:"+kind, "the assembled file has a chunk %q of %d bytes that no accepted AddChunk call put there", c.FourCC, len(c.Data))
		}
	}
	// (2) the package's demuxer
	dmx, err := mux.NewDemuxer(data)
	if err != nil {
		return bad("demuxer-rejects:"+kind, "mux.NewDemuxer rejects the assembled file: %v", err)
	}
	if dmx.NumFrames() != len(md.frames) {
		return bad("demux-frame-count:"+kind, "demuxer reports %d frames, %d were added", dmx.NumFrames(), len(md.frames))
	}
	ft := dmx.GetFeatures()
	if ft.Width != wf.CanvasW || ft.Height != wf.CanvasH {
		return bad("demux-canvas:"+kind, "demuxer canvas %dx%d, file %dx%d", ft.Width, ft.Height, wf.CanvasW, wf.CanvasH)
	}
	for i, f := range md.frames {
		fi, err := dmx.Frame(i)
		if err != nil {
			return bad("demux-frame", "Frame(%d): %v", i, err)
		}
		if !sameBytes(fi.Data, f.fb.bitstream) || !sameBytes(fi.AlphaData, f.fb.alpha) {
			return bad("demux-payload:"+kind, "frame %d: demuxer returns bitstream %d bytes / alpha %d bytes, put in %d / %d", i, len(fi.Data), len(fi.AlphaData), len(f.fb.bitstream), len(f.fb.alpha))
		}
		if wf.Animated {
			if fi.OffsetX != f.offX/2*2 || fi.OffsetY != f.offY/2*2 || fi.Duration != f.dur || (mux.BlendMode(fi.BlendMode) == mux.BlendNone) != f.blendNone || (mux.DisposeMode(fi.DisposeMode) == mux.DisposeBackground) != f.disposeBG {
				return bad("demux-frame-params", "frame %d: demuxer returns offset (%d,%d) duration %d blend %d dispose %d; put in offset (%d,%d) duration %d blend-none %v dispose-bg %v", i, fi.OffsetX, fi.OffsetY, fi.Duration, fi.BlendMode, fi.DisposeMode, f.offX, f.offY, f.dur, f.blendNone, f.disposeBG)
			}
		}
	}
	if wf.Animated && (dmx.LoopCount() != md.loop || dmx.BackgroundColor() != md.bg) {
		return bad("demux-anim-params", "demuxer loop %d bg %#x, put in %d %#x", dmx.LoopCount(), dmx.BackgroundColor(), md.loop, md.bg)
	}
	for _, c := range []struct {
		id   uint32
		want []byte
		has  bool
		name string
	}{{mux.FourCCICCP, md.icc, md.hasICC, "ICCP"}, {mux.FourCCEXIF, md.exif, md.hasEXIF, "EXIF"}, {mux.FourCCXMP, md.xmp, md.hasXMP, "XMP"}} {
		got, err := dmx.GetChunk(c.id)
		if c.has && (err != nil || !sameBytes(got, c.want)) {
			return bad("demux-metadata", "GetChunk(%s): %d bytes err=%v, put in %d bytes", c.name, len(got), err, len(c.want))
		}
		if !c.has && err == nil && len(got) > 0 {
			return bad("demux-metadata", "GetChunk(%s) returns %d bytes, none were set", c.name, len(got))
		}
	}
	for _, c := range wf.Unknown {
		first := c
		for _, d := range wf.Unknown {
			if d.FourCC == c.FourCC {
				first = d
				break
			}
		}
		got, err := dmx.GetChunk(mux.ChunkID(binary.LittleEndian.Uint32([]byte(c.FourCC))))
		if err != nil || !sameBytes(got, first.Data) {
			return bad("demux-chunk:"+kind, "GetChunk(%q): %d bytes err=%v, the file's first such chunk has %d bytes", c.FourCC, len(got), err, len(first.Data))
		}
	}
	// (3a) the container parser, directly: same structure as the file / the demuxer
	if v := checkContainerParser(data, wf, dmx, kind, bad); v != nil {
		return v
	}
	// (3) the container parser (through the public header query)
	feat, err := webp.GetFeatures(bytes.NewReader(data))
	if err != nil {
		return bad("parser-rejects:"+kind, "webp.GetFeatures rejects the assembled file: %v", err)
	}
	if feat.Width != wf.CanvasW || feat.Height != wf.CanvasH || feat.HasAnimation != wf.Animated || feat.FrameCount != len(md.frames) || (wf.Animated && feat.LoopCount != md.loop) {
		return bad("parsers-disagree:"+kind, "webp.GetFeatures %+v vs file: canvas %dx%d animated %v frames %d loop %d", *feat, wf.CanvasW, wf.CanvasH, wf.Animated, len(md.frames), md.loop)
	}
	// (4) stills decode to the frame's picture
	if !wf.Animated {
		f := md.frames[0]
		if f.fb.picDigest == "" {
			if img, err := webp.Decode(bytes.NewReader(f.fb.srcFile)); err == nil {
				// compare through NRGBA so that container differences (VP8X vs simple) do not matter
				f.fb.picDigest = DigestImage(ToNRGBA(img))
			}
		}
		img, err := webp.Decode(bytes.NewReader(data))
		if err != nil {
			return bad("still-undecodable", "webp.Decode rejects the assembled still: %v", err)
		}
		if f.fb.alpha != nil || f.fb.lossless {
			if d := DigestImage(ToNRGBA(img)); d != f.fb.picDigest {
				return bad("still-picture", "assembled still decodes to a different picture than the frame's source file")
			}
		}
	}
	return nil
}

// checkContainerParser compares internal/container.Parser (the parser behind GetFeatures,
// DecodeConfig and the animation reader) with what the file says (walker) and with what the
// demuxer reports for the same bytes: canvas, flags, animation parameters, every frame's
// geometry, timing, flags and payloads, and the metadata / application chunks.
func checkContainerParser(data []byte, wf *WFile, dmx *mux.Demuxer, kind string, bad func(sig, format string, a ...any) *Violation) *Violation {
	ps, err := container.NewParser(data)
	if err != nil {
		return bad("parser-rejects:"+kind, "container.NewParser rejects the assembled file: %v", err)
	}
	pf := ps.Features()
	df := dmx.GetFeatures()
	cw, ch := pf.Width, pf.Height
	if wf.HasVP8X {
		cw, ch = pf.CanvasWidth, pf.CanvasHeight
	}
	if cw != wf.CanvasW || ch != wf.CanvasH || cw != df.Width || ch != df.Height {
		return bad("parsers-disagree:canvas:"+kind, "container parser canvas %dx%d, demuxer %dx%d, file %dx%d", cw, ch, df.Width, df.Height, wf.CanvasW, wf.CanvasH)
	}
	if pf.HasAnim != wf.Animated || pf.HasAnim != df.HasAnimation {
		return bad("parsers-disagree:anim:"+kind, "container parser animated=%v, demuxer %v, file %v", pf.HasAnim, df.HasAnimation, wf.Animated)
	}
	if wf.HasVP8X && (pf.HasICCP != wf.HasICC || pf.HasEXIF != wf.HasEXIF || pf.HasXMP != wf.HasXMP || pf.HasICCP != df.HasICC || pf.HasEXIF != df.HasEXIF || pf.HasXMP != df.HasXMP) {
		return bad("parsers-disagree:flags:"+kind, "metadata flags: container parser %v/%v/%v, demuxer %v/%v/%v, file %v/%v/%v", pf.HasICCP, pf.HasEXIF, pf.HasXMP, df.HasICC, df.HasEXIF, df.HasXMP, wf.HasICC, wf.HasEXIF, wf.HasXMP)
	}
	if pf.HasAlpha != df.HasAlpha {
		return bad("parsers-disagree:alpha:"+kind, "alpha: container parser %v, demuxer %v", pf.HasAlpha, df.HasAlpha)
	}
	if wf.Animated && (pf.LoopCount != wf.Loop || pf.BGColor != wf.Bg || pf.LoopCount != dmx.LoopCount() || pf.BGColor != dmx.BackgroundColor()) {
		return bad("parsers-disagree:anim-params", "container parser loop %d bg %#x, demuxer %d %#x, file %d %#x", pf.LoopCount, pf.BGColor, dmx.LoopCount(), dmx.BackgroundColor(), wf.Loop, wf.Bg)
	}
	frs := ps.Frames()
	if len(frs) != len(wf.Frames) || len(frs) != dmx.NumFrames() {
		return bad("parsers-disagree:frame-count:"+kind, "container parser %d frames, demuxer %d, file %d", len(frs), dmx.NumFrames(), len(wf.Frames))
	}
	for i, fr := range frs {
		g := wf.Frames[i]
		di, err := dmx.Frame(i)
		if err != nil {
			return bad("demux-frame", "Frame(%d): %v", i, err)
		}
		if !sameBytes(fr.Payload, g.Bitstream) || !sameBytes(fr.AlphaData, g.Alph) || (fr.AlphaData == nil) != (g.Alph == nil) || fr.IsLossless != g.Lossless {
			return bad("parsers-disagree:payload:"+kind, "frame %d: container parser bitstream %d bytes (lossless %v) alpha %d bytes, file %d (%v) / %d", i, len(fr.Payload), fr.IsLossless, len(fr.AlphaData), len(g.Bitstream), g.Lossless, len(g.Alph))
		}
		if fr.Width != g.BsW || fr.Height != g.BsH || fr.Width != di.Width || fr.Height != di.Height {
			return bad("parsers-disagree:frame-size:"+kind, "frame %d: container parser %dx%d, demuxer %dx%d, bitstream %dx%d", i, fr.Width, fr.Height, di.Width, di.Height, g.BsW, g.BsH)
		}
		if fr.HasAlpha != di.HasAlpha {
			return bad("parsers-disagree:frame-alpha:"+kind, "frame %d: container parser alpha %v, demuxer %v (ALPH chunk %v, VP8L alpha bit %v)", i, fr.HasAlpha, di.HasAlpha, g.Alph != nil, g.BsAlpha)
		}
		if wf.Animated {
			pb, pd := fr.BlendMethod == container.BlendNone, fr.DisposeMethod == container.DisposeBackground
			db, dd := mux.BlendMode(di.BlendMode) == mux.BlendNone, mux.DisposeMode(di.DisposeMode) == mux.DisposeBackground
			if fr.XOffset != g.X || fr.YOffset != g.Y || fr.Duration != g.Duration || pb == g.Blend || pd != g.DisposeBG ||
				fr.XOffset != di.OffsetX || fr.YOffset != di.OffsetY || fr.Duration != di.Duration || pb != db || pd != dd {
				return bad("parsers-disagree:frame-params", "frame %d: container parser offset (%d,%d) duration %d blend-none %v dispose-bg %v; demuxer (%d,%d) %d %v %v; file (%d,%d) %d %v %v", i,
					fr.XOffset, fr.YOffset, fr.Duration, pb, pd, di.OffsetX, di.OffsetY, di.Duration, db, dd, g.X, g.Y, g.Duration, !g.Blend, g.DisposeBG)
			}
		}
	}
	// metadata and application chunks, in file order
	type ck struct {
		id   string
		data []byte
	}
	var want []ck
	for _, c := range wf.Chunks {
		switch c.FourCC {
		case "VP8X", "ANIM", "ANMF", "VP8 ", "VP8L", "ALPH":
		default:
			want = append(want, ck{c.FourCC, c.Data})
		}
	}
	got := ps.Chunks()
	if !wf.HasVP8X {
		want = nil
	}
	ok := len(got) == len(want)
	for i := 0; ok && i < len(got); i++ {
		var id [4]byte
		binary.LittleEndian.PutUint32(id[:], got[i].FourCC)
		ok = string(id[:]) == want[i].id && sameBytes(got[i].Payload, want[i].data)
	}
	if !ok {
		ids := func(n int, f func(int) string) string {
			s := ""
			for i := 0; i < n; i++ {
				s += f(i) + " "
			}
			return s
		}
		return bad("parsers-disagree:chunks:"+kind, "container parser lists the metadata chunks [%s], the file (and the demuxer) has [%s]",
			ids(len(got), func(i int) string {
				var id [4]byte
				binary.LittleEndian.PutUint32(id[:], got[i].FourCC)
				return fmt.Sprintf("%q/%d", string(id[:]), len(got[i].Payload))
			}), ids(len(want), func(i int) string { return fmt.Sprintf("%q/%d", want[i].id, len(want[i].data)) }))
	}
	return nil
}

func (propC14) Describe() PropDoc {
	return PropDoc{
		Rule: "one run = one seeded history of Muxer calls (AddFrame with VP8/VP8L bitstreams made by the real encoders, odd/even lengths, with and without an ALPH-chunk prefix, nil or explicit options incl. out-of-range durations and offsets; SetFrameDisposeMode/SetFrameDuration with valid and invalid indices; SetCanvasSize, SetLoopCount, SetBackgroundColor, SetICCProfile/SetEXIF/SetXMP/AddChunk with nil, empty, odd, even blobs) then Assemble into a simulated writer; 30 % of runs inject a writer fault at one of Assemble's Write calls. All payloads handed to the muxer are adjacent sub-slices of one caller buffer (the model keeps pristine copies); 25 % of histories assemble the same Muxer once more in the middle of the history (60 % of those into a failing or transiently failing writer) and the first output is checked against the model state at that point. distinct = distinct (history, fault position); non-trivial = at least one frame was accepted by AddFrame.",
		Assumptions: []string{
			"whether Assemble accepts a history is the muxer's own decision; the reference model only supplies the expected content of accepted files",
			"sampling over histories: a clean batch is evidence, not proof",
		},
		Real:      []string{"mux.Muxer, mux.Demuxer, internal/container parser, the codecs that produce the frame bitstreams (rewritten by simgen)"},
		Simulated: []string{"io.Writer given to Assemble (failing/short/torn/transient writes at every Write call)", "the caller's memory layout (payloads cut from one buffer)"},
		Reference: []string{"a plain-struct model of the muxer state updated by the same call history", "the harness's own RIFF walker"},
		MustReach: []string{"assembled_files_verified", "write_fault_surfaced_as_error", "assemble_rejected", "assemble_write_err_on_write"},
	}
}
