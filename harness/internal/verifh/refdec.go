package verifh

import (
	"bytes"
	"fmt"
	"image"

	"github.com/deepteams/webp/internal/verifx/ximage/vp8"
	"github.com/deepteams/webp/internal/verifx/ximage/vp8l"
	xwebp "github.com/deepteams/webp/internal/verifx/ximage/webp"
)

// Reference decoding with the independent golang.org/x/image implementation
// (vendored under /verif/third_party). The container is handled by the harness's
// own walker; x/image only sees bitstreams.

type RefFrame struct {
	Lossless bool
	W, H     int
	YCbCr    *image.YCbCr // lossy
	Alpha    []byte       // lossy + ALPH: w*h
	NRGBA    *image.NRGBA // lossless
}

func refDecodeVP8(payload []byte, skipFilter bool) (*image.YCbCr, error) {
	d := vp8.NewDecoder()
	d.Init(bytes.NewReader(payload), len(payload))
	if _, err := d.DecodeFrameHeader(); err != nil {
		return nil, err
	}
	vp8.SkipLoopFilter = skipFilter
	defer func() { vp8.SkipLoopFilter = false }()
	return d.DecodeFrame()
}

func RefDecodeFrame(fr *WFrame) (rf *RefFrame, err error) {
	defer func() {
		if r := recover(); r != nil {
			rf, err = nil, fmt.Errorf("x/image panic: %v", r)
		}
	}()
	rf = &RefFrame{Lossless: fr.Lossless, W: fr.BsW, H: fr.BsH}
	if fr.Lossless {
		img, err := vp8l.Decode(bytes.NewReader(fr.Bitstream))
		if err != nil {
			return nil, err
		}
		n, ok := img.(*image.NRGBA)
		if !ok {
			return nil, fmt.Errorf("x/image vp8l returned %T", img)
		}
		rf.NRGBA = n
		return rf, nil
	}
	y, err := refDecodeVP8(fr.Bitstream, false)
	if err != nil {
		return nil, err
	}
	rf.YCbCr = y
	if fr.Alph != nil {
		a, err := xwebp.DecodeAlphaChunk(fr.Alph, fr.BsW, fr.BsH)
		if err != nil {
			return nil, fmt.Errorf("alpha: %w", err)
		}
		rf.Alpha = a
	}
	return rf, nil
}

// sameYCbCr compares the visible area of two 4:2:0 images.
func sameYCbCr(a, b *image.YCbCr) string {
	if a.Rect.Dx() != b.Rect.Dx() || a.Rect.Dy() != b.Rect.Dy() {
		return fmt.Sprintf("size %v vs %v", a.Rect, b.Rect)
	}
	w, h := a.Rect.Dx(), a.Rect.Dy()
	for y := 0; y < h; y++ {
		ao, bo := a.YOffset(a.Rect.Min.X, a.Rect.Min.Y+y), b.YOffset(b.Rect.Min.X, b.Rect.Min.Y+y)
		if !bytes.Equal(a.Y[ao:ao+w], b.Y[bo:bo+w]) {
			for x := 0; x < w; x++ {
				if a.Y[ao+x] != b.Y[bo+x] {
					return fmt.Sprintf("Y(%d,%d) %d vs %d", x, y, a.Y[ao+x], b.Y[bo+x])
				}
			}
		}
	}
	cw, chh := (w+1)/2, (h+1)/2
	for y := 0; y < chh; y++ {
		ao, bo := a.COffset(a.Rect.Min.X, a.Rect.Min.Y+2*y), b.COffset(b.Rect.Min.X, b.Rect.Min.Y+2*y)
		for x := 0; x < cw; x++ {
			if a.Cb[ao+x] != b.Cb[bo+x] {
				return fmt.Sprintf("Cb(%d,%d) %d vs %d", x, y, a.Cb[ao+x], b.Cb[bo+x])
			}
			if a.Cr[ao+x] != b.Cr[bo+x] {
				return fmt.Sprintf("Cr(%d,%d) %d vs %d", x, y, a.Cr[ao+x], b.Cr[bo+x])
			}
		}
	}
	return ""
}

func sameNRGBA(a, b *image.NRGBA) string {
	if a.Rect.Dx() != b.Rect.Dx() || a.Rect.Dy() != b.Rect.Dy() {
		return fmt.Sprintf("size %v vs %v", a.Rect, b.Rect)
	}
	w, h := a.Rect.Dx(), a.Rect.Dy()
	for y := 0; y < h; y++ {
		ao, bo := a.PixOffset(a.Rect.Min.X, a.Rect.Min.Y+y), b.PixOffset(b.Rect.Min.X, b.Rect.Min.Y+y)
		if !bytes.Equal(a.Pix[ao:ao+4*w], b.Pix[bo:bo+4*w]) {
			for x := 0; x < w; x++ {
				if !bytes.Equal(a.Pix[ao+4*x:ao+4*x+4], b.Pix[bo+4*x:bo+4*x+4]) {
					return fmt.Sprintf("pixel(%d,%d) %v vs %v", x, y, a.Pix[ao+4*x:ao+4*x+4], b.Pix[bo+4*x:bo+4*x+4])
				}
			}
		}
	}
	return ""
}
