package verifh

import (
	"bytes"
	"fmt"
	"image"

	webp "github.com/deepteams/webp"
	"github.com/deepteams/webp/internal/vsim"
	"github.com/deepteams/webp/internal/vsim/ssync"
)

// The storage workload shared by C01 / C02 / C07: a client encodes an image
// through a simulated writer into the simulated disk; a client reads it back
// through a simulated reader. Worker count, schedule policy and pool behaviour are
// drawn per run so the codec's parallel sections and pooled coders are exercised.

type StoreParams struct {
	Sched SchedSpec  `json:"sched"`
	Img   ImgSpec    `json:"img"`
	Opt   OptSpec    `json:"opt"`
	WF    WriteFault `json:"write_fault"`
	RP    ReadPlan   `json:"read_plan"`
	// Prior: an unrelated earlier transaction in the same world (so pooled coders are reused)
	Prior *Op `json:"prior,omitempty"`
	// Second: an unrelated operation executed by a second client task concurrently with
	// the transaction (pooled objects and buffers cross tasks while Encode is writing)
	Second *Op `json:"second,omitempty"`
}

type storeOutcome struct {
	src      *image.NRGBA
	srcAlpha bool
	encErr   error
	writer   *SimWriter
	decImg   image.Image
	decErr   error
	reader   io2
	w        *vsim.World
}

type io2 struct {
	fired bool
	calls int
}

func genStoreSched(r *RNG) SchedSpec {
	s := GenSched(r, 300, 1)
	if r.Pct(35) {
		s.Procs = 1
	}
	return s
}

func runStore(p *StoreParams, x *X) *storeOutcome {
	o := &storeOutcome{}
	img := Generate(p.Img)
	o.src = ToNRGBA(img)
	for i := 3; i < len(o.src.Pix); i += 4 {
		if o.src.Pix[i] != 255 {
			o.srcAlpha = true
			break
		}
	}
	o.writer = &SimWriter{Fault: p.WF}
	var priorIn []byte
	if p.Prior != nil && needsInput(*p.Prior) {
		priorIn = InputFor(*p.Prior)
	}
	var secondIn []byte
	if p.Second != nil && needsInput(*p.Second) {
		secondIn = InputFor(*p.Second)
	}
	o.w = x.Explore(p.Sched.Config(), func() {
		if p.Prior != nil {
			ExecOp(*p.Prior, priorIn)
		}
		var wg ssync.WaitGroup
		if p.Second != nil {
			wg.Add(1)
			vsim.Go(2, func() {
				defer wg.Done()
				ExecOp(*p.Second, secondIn)
			})
			defer wg.Wait()
		}
		o.encErr = webp.Encode(o.writer, img, p.Opt.ToOptions())
		if o.encErr != nil {
			return
		}
		rd := NewSimReader(o.writer.Data, p.RP)
		o.decImg, o.decErr = webp.Decode(rd)
		switch t := rd.(type) {
		case *SimReader:
			o.reader = io2{t.Fired, t.Calls}
		case *simReaderLen:
			o.reader = io2{t.Fired, t.Calls}
		}
	})
	if o.writer.Fired {
		x.Fault("write_" + p.WF.Kind)
	}
	if o.reader.fired {
		x.Fault("read_error")
	}
	if o.encErr == nil {
		x.Count("read_mode_"+p.RP.Mode, 1)
		if p.RP.HasLen {
			x.Count("reader_with_len", 1)
		}
		x.Count("writer_calls", int64(o.writer.Calls))
	}
	return o
}

// commonStoreChecks: simulator failure states and fault semantics shared by the
// three properties. Returns (violation, proceed).
func commonStoreChecks(prop string, p *StoreParams, o *storeOutcome, x *X) (*Violation, bool) {
	if v := x.WorldViolation(prop, o.w); v != nil {
		return v, false
	}
	if x.Inconclusive != "" {
		return nil, false
	}
	if o.writer.Fired {
		if o.encErr == nil {
			return &Violation{Prop: prop, Sig: "write-fault-swallowed:" + p.WF.Kind, Detail: fmt.Sprintf("a Write failed (%s at %d, write sizes %v) but Encode returned nil for %s %s", p.WF.Kind, p.WF.At, o.writer.Sizes, p.Img, p.Opt)}, false
		}
		x.Count("write_fault_surfaced_as_error", 1)
		return nil, false
	}
	if o.encErr != nil {
		x.Count("encode_refused", 1)
		return nil, false
	}
	if o.reader.fired {
		if o.decErr == nil {
			return &Violation{Prop: prop, Sig: "read-fault-swallowed", Detail: fmt.Sprintf("the reader failed at offset %d of %d but Decode returned an image for %s %s", p.RP.ErrAt, len(o.writer.Data), p.Img, p.Opt)}, false
		}
		x.Count("read_fault_surfaced_as_error", 1)
		return nil, false
	}
	return nil, true
}

func colorClass(src *image.NRGBA) string {
	seen := map[[4]byte]struct{}{}
	for i := 0; i+3 < len(src.Pix); i += 4 {
		seen[[4]byte{src.Pix[i], src.Pix[i+1], src.Pix[i+2], src.Pix[i+3]}] = struct{}{}
		if len(seen) > 256 {
			return "colors>256"
		}
	}
	switch n := len(seen); {
	case n <= 2:
		return "colors<=2"
	case n <= 4:
		return "colors<=4"
	case n <= 16:
		return "colors<=16"
	default:
		return "colors<=256"
	}
}

func storeCase(p *StoreParams, o *storeOutcome, x *X) {
	// distinct = (workload, schedule) pair; non-trivial: the transaction completed
	// (encode acknowledged and read back) or a fault fired inside it
	h := o.w.Hash ^ hashString(Op{Kind: "enc", Img: p.Img, Opt: p.Opt}.Key())
	x.Case(h, o.encErr == nil || o.writer.Fired)
	x.Workload(hashString(Op{Kind: "enc", Img: p.Img, Opt: p.Opt}.Key()))
}

// ---------------------------------------------------------------- C01

type propC01 struct{}

func (propC01) ID() string     { return "C01" }
func (propC01) Level() string  { return "exploration" }
func (propC01) NewParams() any { return &StoreParams{} }
func (propC01) Plan(tier string) (int, int) {
	if tier == "thorough" {
		return 2000000, 0
	}
	return 12000, 0
}

func (propC01) Gen(seed uint64, tier string, idx int) any {
	r := NewRNG(seed)
	p := &StoreParams{Sched: genStoreSched(r)}
	maxSide := 72
	if r.Pct(8) {
		maxSide = 160
	}
	p.Img = GenImgSpec(r, 1, maxSide, 1)
	if r.Pct(35) {
		p.Img.Family = "pal"
		p.Img.Colors = r.Pick(1, 2, 3, 4, 5, 8, 15, 16, 17, 40, 200, 256)
		p.Img.Runs = r.Bool()
	}
	p.Opt = GenLosslessOpts(r, 25)
	if r.Pct(2) {
		// large pictures made of statistically different regions: many prefix-code
		// groups, tile-map sub-sampling, table-slab limits
		p.Img.Family = r.PickS("regions", "regions", "patch")
		p.Img.W, p.Img.H = 16*r.Range(8, 32), 16*r.Range(8, 32)
		p.Img.Type = "nrgba"
		if p.Opt.Method > 4 {
			p.Opt.Method = r.Range(0, 4)
		}
	}
	p.WF = GenWriteFault(r, 6, 400)
	p.RP = GenReadPlan(r, 4, 400)
	if r.Pct(25) {
		op := GenStillOp(r, 1, 48, false)
		p.Prior = &op
	}
	genSecond(r, p, true)
	if tier == "thorough" && idx%25000 == 77 {
		// more than 2^20 pixels: backward references at the very edge of the LZ77
		// window (the generator repeats the first row at the end of such pictures)
		// the format's largest backward distance is 2^20-120 pixels; the repeat is placed
		// 0..118 pixels beyond it (rows*width just above the limit)
		rows := r.Range(64, 119)
		wd := (1<<20 - 120 + rows) / rows
		if (wd+1)*rows < 1<<20 && r.Bool() {
			wd++
		}
		p.Img = ImgSpec{Family: "pal", Colors: 256, W: wd, H: rows + 1, Seed: r.Next(), Alpha: "opaque", Type: "nrgba"}
		p.Opt = GenLosslessOpts(r, 0)
		p.Opt.Quality, p.Opt.Method = float32(r.Pick(80, 90, 100)), r.Range(2, 4)
		p.Prior, p.Second, p.WF = nil, nil, WriteFault{}
		p.RP = ReadPlan{Mode: "whole", HasLen: true, ErrAt: -1}
	}
	return p
}

// genSecond: 20 % of transactions run next to a concurrent second client whose
// operation uses the same codec family (so the same pools).
func genSecond(r *RNG, p *StoreParams, lossless bool) {
	if !r.Pct(20) {
		return
	}
	op := GenStillOp(r, 1, 48, false)
	op.Kind = "enc"
	if r.Pct(60) {
		op.Opt.Lossless = p.Opt.Lossless
		if p.Opt.HasMeta() {
			op.Opt.ICCLen = 5
		}
	}
	p.Second = &op
	if p.Sched.Policy == vsim.PolCanonical {
		p.Sched.Policy = vsim.PolUniform
	}
	if p.Sched.PoolHitPct == 0 {
		p.Sched.PoolHitPct = 90
	}
}

func shrinkStore(pp any) []any {
	p := pp.(*StoreParams)
	var out []any
	add := func(f func(q *StoreParams)) {
		q := *p
		f(&q)
		out = append(out, &q)
	}
	if p.Prior != nil {
		add(func(q *StoreParams) { q.Prior = nil })
	}
	if p.Second != nil {
		add(func(q *StoreParams) { q.Second = nil })
	}
	if p.Second == nil && (p.Sched.Policy != vsim.PolCanonical || p.Sched.PoolHitPct != 0) {
		add(func(q *StoreParams) {
			q.Sched.Policy = vsim.PolCanonical
			q.Sched.PoolHitPct, q.Sched.PoolDropPm, q.Sched.PoolGCPm = 0, 0, 0
		})
	}
	if p.Sched.Procs != 1 {
		add(func(q *StoreParams) { q.Sched.Procs = 1 })
	}
	if p.WF.Kind != "" && false {
		add(func(q *StoreParams) { q.WF = WriteFault{} })
	}
	if p.RP.Mode != "whole" || p.RP.ZeroRead {
		add(func(q *StoreParams) { q.RP.Mode, q.RP.ZeroRead = "whole", false })
	}
	if p.Img.Type != "nrgba" {
		add(func(q *StoreParams) { q.Img.Type = "nrgba" })
	}
	if p.Img.W > 1 {
		add(func(q *StoreParams) { q.Img.W = (q.Img.W + 1) / 2 })
		add(func(q *StoreParams) { q.Img.W-- })
	}
	if p.Img.H > 1 {
		add(func(q *StoreParams) { q.Img.H = (q.Img.H + 1) / 2 })
		add(func(q *StoreParams) { q.Img.H-- })
	}
	if p.Opt.HasMeta() {
		add(func(q *StoreParams) { q.Opt.ICCLen, q.Opt.EXIFLen, q.Opt.XMPLen = -1, -1, -1 })
	}
	return out
}

func (propC01) Shrink(pp any) []any { return shrinkStore(pp) }

func (propC01) Execute(pp any, x *X) *Violation {
	p := pp.(*StoreParams)
	o := runStore(p, x)
	storeCase(p, o, x)
	x.Sample(map[string]any{"img": p.Img.String(), "opt": p.Opt.String(), "sched": p.Sched, "write_fault": p.WF, "read_plan": p.RP, "file_bytes": len(o.writer.Data)})
	v, ok := commonStoreChecks("C01", p, o, x)
	if !ok {
		return v
	}
	if o.decErr != nil {
		return &Violation{Prop: "C01", Sig: "lossless-undecodable:" + colorClass(o.src), Detail: fmt.Sprintf("Encode returned nil but Decode fails (%v) for %s %s", o.decErr, p.Img, p.Opt)}
	}
	got, isN := o.decImg.(*image.NRGBA)
	if !isN {
		return &Violation{Prop: "C01", Sig: "lossless-type", Detail: fmt.Sprintf("lossless decode returned %T", o.decImg)}
	}
	if d := compareLossless(o.src, got, p.Opt.Exact); d != "" {
		return &Violation{Prop: "C01", Sig: "lossless-roundtrip:" + colorClass(o.src), Detail: fmt.Sprintf("%s %s (worker count %d): %s", p.Img, p.Opt, p.Sched.Procs, d)}
	}
	x.Count("roundtrips_verified", 1)
	x.Count("method_"+fmt.Sprint(p.Opt.Method), 1)
	x.Count(colorClass(o.src), 1)
	return nil
}

func compareLossless(src, got *image.NRGBA, exact bool) string {
	if src.Rect.Dx() != got.Rect.Dx() || src.Rect.Dy() != got.Rect.Dy() {
		return fmt.Sprintf("decoded size %dx%d, source %dx%d", got.Rect.Dx(), got.Rect.Dy(), src.Rect.Dx(), src.Rect.Dy())
	}
	w, h := src.Rect.Dx(), src.Rect.Dy()
	bad := 0
	first := ""
	for y := 0; y < h; y++ {
		for xx := 0; xx < w; xx++ {
			s := src.Pix[y*src.Stride+4*xx : y*src.Stride+4*xx+4]
			g := got.Pix[got.PixOffset(got.Rect.Min.X+xx, got.Rect.Min.Y+y):][:4]
			if bytes.Equal(s, g) {
				continue
			}
			if !exact && s[3] == 0 && g[3] == 0 && g[0] == 0 && g[1] == 0 && g[2] == 0 {
				continue
			}
			if bad == 0 {
				first = fmt.Sprintf("pixel (%d,%d): source %v, decoded %v", xx, y, s, g)
			}
			bad++
		}
	}
	if bad > 0 {
		return fmt.Sprintf("%d of %d pixels differ; first %s", bad, w*h, first)
	}
	return ""
}

func storeDoc(rule string, must []string) PropDoc {
	return PropDoc{
		Rule: rule,
		Assumptions: []string{
			"the image/option dimension is an ordinary seeded generator (reported as distinct_workloads), the simulated dimensions are worker count, schedule policy, pool behaviour, writer faults and reader delivery",
			"golang.org/x/image (2019-08-02, vendored) is trusted as an independent decoder only when it accepts; its refusals alone are not believed",
			"sampling: a clean batch is evidence, not proof",
		},
		Real:      []string{"every line of deepteams/webp, rewritten by simgen"},
		Simulated: []string{"io.Writer given to Encode (torn/short/failed writes, disk full)", "io.Reader given to Decode (piecewise delivery, Len() or not, EOF styles, zero reads, read errors)", "byte store between them", "worker count, schedule, pools"},
		Reference: []string{"source pixels", "the harness's own RIFF walker (from the container specification)", "golang.org/x/image vp8/vp8l/alpha decoders"},
		MustReach: must,
	}
}

func (propC01) Describe() PropDoc {
	return storeDoc("one run = one storage transaction: Encode(lossless) through a simulated writer, Decode through a simulated reader, under a drawn worker count / schedule policy / pool behaviour, optionally after an unrelated earlier call in the same world. distinct = distinct (operation descriptor, explored-world trace hash); non-trivial = the transaction was acknowledged and read back, or a fault fired inside it.",
		[]string{"roundtrips_verified", "write_fault_surfaced_as_error", "colors<=16", "colors<=2", "method_6", "method_5"})
}

// ---------------------------------------------------------------- C07

type propC07 struct{}

func (propC07) ID() string     { return "C07" }
func (propC07) Level() string  { return "exploration" }
func (propC07) NewParams() any { return &StoreParams{} }
func (propC07) Plan(tier string) (int, int) {
	if tier == "thorough" {
		return 2000000, 0
	}
	return 16000, 0
}

func (propC07) Gen(seed uint64, tier string, idx int) any {
	r := NewRNG(seed)
	p := &StoreParams{Sched: genStoreSched(r)}
	wantAlpha := 2
	if r.Pct(15) {
		wantAlpha = 0
	}
	p.Img = GenImgSpec(r, 1, 72, wantAlpha)
	switch p.Img.Type {
	case "gray", "ycbcr", "graysub":
		p.Img.Type = "nrgba"
	}
	p.Opt = GenLossyOpts(r, 15, false)
	p.Opt.AlphaCompression = r.Pick(-1, 0, 1, 1)
	p.Opt.AlphaFiltering = r.Pick(-1, 0, 1, 2)
	p.Opt.AlphaQuality = -1
	if r.Pct(30) {
		p.Opt.AlphaQuality = r.Pick(0, 5, 10, 35, 50, 69, 70, 71, 80, 90, 99, 100)
	}
	p.Opt.Method = r.Intn(7)
	p.WF = GenWriteFault(r, 4, 400)
	p.RP = GenReadPlan(r, 3, 400)
	if r.Pct(25) {
		op := GenStillOp(r, 1, 48, false)
		p.Prior = &op
	}
	genSecond(r, p, false)
	return p
}

func (propC07) Shrink(pp any) []any { return shrinkStore(pp) }

func alphaLevelsDocumented(q int) int {
	if q <= 70 {
		return 2 + q/5
	}
	return 16 + (q-70)*8
}

func (propC07) Execute(pp any, x *X) *Violation {
	p := pp.(*StoreParams)
	o := runStore(p, x)
	storeCase(p, o, x)
	x.Sample(map[string]any{"img": p.Img.String(), "opt": p.Opt.String(), "sched": p.Sched, "file_bytes": len(o.writer.Data)})
	v, ok := commonStoreChecks("C07", p, o, x)
	if !ok {
		return v
	}
	if o.decErr != nil {
		return &Violation{Prop: "C07", Sig: "lossy-undecodable", Detail: fmt.Sprintf("Encode returned nil but Decode fails (%v) for %s %s", o.decErr, p.Img, p.Opt)}
	}
	b := o.decImg.Bounds()
	if b.Dx() != p.Img.W || b.Dy() != p.Img.H {
		return &Violation{Prop: "C07", Sig: "lossy-size", Detail: fmt.Sprintf("decoded %dx%d, source %dx%d", b.Dx(), b.Dy(), p.Img.W, p.Img.H)}
	}
	aq := p.Opt.AlphaQuality
	if aq < 0 {
		aq = 100
	}
	if !o.srcAlpha {
		// no transparency: must decode fully opaque
		if n, ok := o.decImg.(*image.NRGBA); ok {
			for i := 3; i < len(n.Pix); i += 4 {
				if n.Pix[i] != 255 {
					return &Violation{Prop: "C07", Sig: "opaque-source-not-opaque", Detail: fmt.Sprintf("%s %s: opaque source decodes with alpha %d at byte %d", p.Img, p.Opt, n.Pix[i], i)}
				}
			}
		}
		x.Count("opaque_verified", 1)
		return nil
	}
	n, ok2 := o.decImg.(*image.NRGBA)
	if !ok2 {
		return &Violation{Prop: "C07", Sig: "alpha-dropped", Detail: fmt.Sprintf("%s %s: source has transparency but Decode returned %T (no alpha channel)", p.Img, p.Opt, o.decImg)}
	}
	w, h := p.Img.W, p.Img.H
	if aq >= 100 {
		bad, first := 0, ""
		for y := 0; y < h; y++ {
			for xx := 0; xx < w; xx++ {
				sa := o.src.Pix[y*o.src.Stride+4*xx+3]
				ga := n.Pix[n.PixOffset(n.Rect.Min.X+xx, n.Rect.Min.Y+y)+3]
				if sa != ga {
					if bad == 0 {
						first = fmt.Sprintf("(%d,%d): source alpha %d, decoded %d", xx, y, sa, ga)
					}
					bad++
				}
			}
		}
		if bad > 0 {
			return &Violation{Prop: "C07", Sig: fmt.Sprintf("alpha-roundtrip:comp%d", resolveNeg(p.Opt.AlphaCompression, 1)), Detail: fmt.Sprintf("%s %s (worker count %d): %d of %d alpha values differ; first %s", p.Img, p.Opt, p.Sched.Procs, bad, w*h, first)}
		}
		x.Count("alpha_exact_verified", 1)
		x.Count(fmt.Sprintf("alpha_comp%d_filt%d", resolveNeg(p.Opt.AlphaCompression, 1), resolveNeg(p.Opt.AlphaFiltering, 1)), 1)
		return nil
	}
	// AlphaQuality < 100: only quantisation
	var seen [256]bool
	levels := 0
	smin, smax := 255, 0
	for y := 0; y < h; y++ {
		for xx := 0; xx < w; xx++ {
			sa := int(o.src.Pix[y*o.src.Stride+4*xx+3])
			if sa < smin {
				smin = sa
			}
			if sa > smax {
				smax = sa
			}
			ga := n.Pix[n.PixOffset(n.Rect.Min.X+xx, n.Rect.Min.Y+y)+3]
			if !seen[ga] {
				seen[ga] = true
				levels++
			}
		}
	}
	maxLevels := alphaLevelsDocumented(aq)
	if levels > maxLevels {
		return &Violation{Prop: "C07", Sig: "alpha-levels-exceeded", Detail: fmt.Sprintf("%s %s: AlphaQuality %d allows %d levels, decoded alpha has %d", p.Img, p.Opt, aq, maxLevels, levels)}
	}
	if !seen[smin] || !seen[smax] {
		return &Violation{Prop: "C07", Sig: "alpha-extremes-lost", Detail: fmt.Sprintf("%s %s: AlphaQuality %d: source alpha min %d / max %d must be kept; decoded has min-present=%v max-present=%v", p.Img, p.Opt, aq, smin, smax, seen[smin], seen[smax])}
	}
	x.Count("alpha_quantised_verified", 1)
	return nil
}

func resolveNeg(v, def int) int {
	if v < 0 {
		return def
	}
	return v
}

func (propC07) Describe() PropDoc {
	return storeDoc("one run = one storage transaction: Encode(lossy, image with transparency in 85 % of runs) through a simulated writer, Decode through a simulated reader, under a drawn worker count / schedule policy / pool behaviour (the alpha plane goes through the pooled lossless coder and its parallel sections). distinct = distinct (operation descriptor, explored-world trace hash); non-trivial = acknowledged and read back, or a fault fired.",
		[]string{"alpha_exact_verified", "alpha_quantised_verified", "opaque_verified", "alpha_comp0_filt0", "alpha_comp1_filt2"})
}

// ---------------------------------------------------------------- C02

type propC02 struct{}

func (propC02) ID() string     { return "C02" }
func (propC02) Level() string  { return "exploration" }
func (propC02) NewParams() any { return &StoreParams{} }
func (propC02) Plan(tier string) (int, int) {
	if tier == "thorough" {
		return 2000000, 0
	}
	return 20000, 0
}

func (propC02) Gen(seed uint64, tier string, idx int) any {
	r := NewRNG(seed)
	p := &StoreParams{Sched: genStoreSched(r)}
	maxSide := 72
	if r.Pct(6) {
		maxSide = 200
	}
	p.Img = GenImgSpec(r, 1, maxSide, 1)
	if r.Pct(40) {
		p.Opt = GenLosslessOpts(r, 45)
	} else {
		p.Opt = GenLossyOpts(r, 45, true)
	}
	if r.Pct(2) {
		p.Img.Family = r.PickS("regions", "patch", "noise", "hole", "hole")
		p.Img.W, p.Img.H = 16*r.Range(8, 32)-r.Intn(3), 16*r.Range(8, 32)-r.Intn(3)
		if p.Opt.Lossless && p.Opt.Method > 4 {
			p.Opt.Method = r.Range(0, 4)
		}
	}
	approx := 300
	p.WF = GenWriteFault(r, 20, approx)
	p.RP = GenReadPlan(r, 3, approx)
	genSecond(r, p, p.Opt.Lossless)
	if tier == "thorough" && idx%500000 == 4321 {
		// about 32 megapixels of noise: the mode partition of such a picture comes close to
		// or exceeds the 19 bits the frame tag has for its size (and the token partitions
		// approach their 24 bits). Encode must fail or write a decodable file.
		side := r.Range(5500, 5800)
		p.Img = ImgSpec{Family: "noise", W: side, H: side, Seed: r.Next(), Alpha: "opaque", Type: "nrgba"}
		p.Opt = defaultOptSpec()
		p.Opt.Method, p.Opt.Partitions = r.Pick(3, 4), r.Pick(0, 0, 3)
		p.Prior, p.Second, p.WF = nil, nil, WriteFault{}
		p.RP = ReadPlan{Mode: "whole", HasLen: true, ErrAt: -1}
		p.Sched = SchedSpec{Seed: r.Next(), Policy: vsim.PolCanonical, Procs: r.Pick(1, 4)}
	}
	return p
}

func (propC02) Shrink(pp any) []any { return shrinkStore(pp) }

func (propC02) Execute(pp any, x *X) *Violation {
	p := pp.(*StoreParams)
	o := runStore(p, x)
	storeCase(p, o, x)
	x.Sample(map[string]any{"img": p.Img.String(), "opt": p.Opt.String(), "sched": p.Sched, "write_fault": p.WF, "writer_call_sizes": o.writer.Sizes, "file_bytes": len(o.writer.Data)})
	v, ok := commonStoreChecks("C02", p, o, x)
	if !ok {
		return v
	}
	data := o.writer.Data
	codec := codecFamily(Op{Opt: p.Opt})
	// (i) the harness's own walker
	wf, err := Walk(data)
	if err != nil {
		return &Violation{Prop: "C02", Sig: "container:" + codec + ":" + errClass(err), Detail: fmt.Sprintf("%s %s: Encode returned nil, the %d bytes written are not a well-formed file: %v", p.Img, p.Opt, len(data), err)}
	}
	if wf.Trailing != 0 {
		return &Violation{Prop: "C02", Sig: "container:" + codec + ":trailing", Detail: fmt.Sprintf("%d bytes after the RIFF chunk", wf.Trailing)}
	}
	if wf.Animated || len(wf.Frames) != 1 {
		return &Violation{Prop: "C02", Sig: "container:" + codec + ":not-still", Detail: "Encode wrote an animated file"}
	}
	fr := &wf.Frames[0]
	if wf.CanvasW != p.Img.W || wf.CanvasH != p.Img.H || fr.BsW != p.Img.W || fr.BsH != p.Img.H {
		return &Violation{Prop: "C02", Sig: "dimensions:" + codec, Detail: fmt.Sprintf("source %dx%d, canvas %dx%d, bitstream %dx%d", p.Img.W, p.Img.H, wf.CanvasW, wf.CanvasH, fr.BsW, fr.BsH)}
	}
	if fr.Lossless != p.Opt.Lossless {
		return &Violation{Prop: "C02", Sig: "codec-mismatch", Detail: fmt.Sprintf("Lossless=%v but bitstream lossless=%v", p.Opt.Lossless, fr.Lossless)}
	}
	declAlpha := fr.HasAlphaData()
	if wf.HasVP8X {
		declAlpha = wf.Flags&flagAlpha != 0
	}
	if o.srcAlpha && !declAlpha {
		return &Violation{Prop: "C02", Sig: "alpha-flag:" + codec + ":missing", Detail: fmt.Sprintf("%s %s: source has transparency, file declares no alpha", p.Img, p.Opt)}
	}
	if !o.srcAlpha && declAlpha {
		return &Violation{Prop: "C02", Sig: "alpha-flag:" + codec + ":spurious", Detail: fmt.Sprintf("%s %s: source is opaque, file declares alpha", p.Img, p.Opt)}
	}
	wantVP8X := p.Opt.HasMeta() || (!p.Opt.Lossless && o.srcAlpha)
	if wantVP8X != wf.HasVP8X {
		x.Count("vp8x_choice_unexpected", 1) // informational: either choice is conformant
	}
	if wf.HasVP8X {
		x.Count("vp8x_files", 1)
	} else {
		x.Count("simple_files", 1)
	}
	// metadata stored <=> requested non-empty (flags<=>chunks is checked by the walker)
	if (len(p.Opt.ICC()) > 0) != wf.HasICC || (len(p.Opt.EXIF()) > 0) != wf.HasEXIF || (len(p.Opt.XMP()) > 0) != wf.HasXMP {
		return &Violation{Prop: "C02", Sig: "metadata-presence:" + codec, Detail: fmt.Sprintf("%s: requested ICC/EXIF/XMP lengths %d/%d/%d, file has chunks %v/%v/%v", p.Opt, p.Opt.ICCLen, p.Opt.EXIFLen, p.Opt.XMPLen, wf.HasICC, wf.HasEXIF, wf.HasXMP)}
	}
	// (ii) this package's decoder
	if o.decErr != nil {
		return &Violation{Prop: "C02", Sig: "own-decoder-rejects:" + codec, Detail: fmt.Sprintf("%s %s: Encode returned nil, webp.Decode fails: %v", p.Img, p.Opt, o.decErr)}
	}
	if b := o.decImg.Bounds(); b.Dx() != p.Img.W || b.Dy() != p.Img.H {
		return &Violation{Prop: "C02", Sig: "decoded-size:" + codec, Detail: fmt.Sprintf("decoded %dx%d, source %dx%d", b.Dx(), b.Dy(), p.Img.W, p.Img.H)}
	}
	// (iii) the independent decoder
	rf, rerr := RefDecodeFrame(fr)
	if rerr != nil {
		// only x/image rejects while the walker and this package accept: not believed alone
		x.Count("ximage_rejects_only", 1)
		return &Violation{Prop: "C02", Sig: "independent-decoder-rejects:" + codec, Detail: fmt.Sprintf("%s %s: the independent decoder rejects the bitstream (%v) although the container is well-formed and this package decodes it", p.Img, p.Opt, rerr)}
	}
	switch got := o.decImg.(type) {
	case *image.YCbCr:
		if rf.YCbCr == nil {
			return &Violation{Prop: "C02", Sig: "decoder-type-disagreement", Detail: "own decoder returned YCbCr, reference did not"}
		}
		if d := sameYCbCr(got, rf.YCbCr); d != "" {
			return &Violation{Prop: "C02", Sig: "decoders-disagree:lossy", Detail: fmt.Sprintf("%s %s: both decoders accept, samples differ: %s (own vs x/image)", p.Img, p.Opt, d)}
		}
	case *image.NRGBA:
		if fr.Lossless {
			if d := sameNRGBA(got, rf.NRGBA); d != "" {
				return &Violation{Prop: "C02", Sig: "decoders-disagree:lossless", Detail: fmt.Sprintf("%s %s: both decoders accept, pixels differ: %s (own vs x/image)", p.Img, p.Opt, d)}
			}
		} else {
			if rf.Alpha == nil {
				return &Violation{Prop: "C02", Sig: "decoder-type-disagreement", Detail: "own decoder returned NRGBA for a lossy file without ALPH"}
			}
			for y := 0; y < p.Img.H; y++ {
				for xx := 0; xx < p.Img.W; xx++ {
					ga := got.Pix[got.PixOffset(got.Rect.Min.X+xx, got.Rect.Min.Y+y)+3]
					if ga != rf.Alpha[y*p.Img.W+xx] {
						return &Violation{Prop: "C02", Sig: "decoders-disagree:alpha", Detail: fmt.Sprintf("%s %s: alpha(%d,%d) own %d vs x/image %d", p.Img, p.Opt, xx, y, ga, rf.Alpha[y*p.Img.W+xx])}
					}
				}
			}
		}
	}
	x.Count("files_verified_by_walker_and_both_decoders", 1)
	x.Count("codec_"+codecOf(Op{Img: p.Img, Opt: p.Opt}), 1)
	if !p.Opt.Lossless {
		x.Count(fmt.Sprintf("partitions_%d", 1<<uint(p.Opt.Partitions)), 1)
	}
	return nil
}

func errClass(err error) string {
	s := err.Error()
	// first three words after "walker:"
	if i := len("walker: "); len(s) > i && s[:i] == "walker: " {
		s = s[i:]
	}
	words := bytes.Fields([]byte(s))
	out := ""
	for i, w := range words {
		if i == 3 {
			break
		}
		keep := true
		for _, c := range w {
			if c >= '0' && c <= '9' {
				keep = false
			}
		}
		if keep {
			out += string(w) + "_"
		}
	}
	return out
}

func (propC02) Describe() PropDoc {
	return storeDoc("one run = one storage transaction: Encode (lossy 60 % / lossless 40 %, metadata subsets in 45 % of runs, writer faults in 20 %) through a simulated writer; on success the bytes on the simulated disk are checked by the harness's own RIFF walker, by webp.Decode through a simulated reader and by the independent x/image bitstream decoders. distinct = distinct (operation descriptor, explored-world trace hash); non-trivial = acknowledged and read back, or a fault fired inside Encode.",
		[]string{"files_verified_by_walker_and_both_decoders", "write_fault_surfaced_as_error", "vp8x_files", "simple_files", "partitions_8", "codec_lossy+alpha", "codec_lossless"})
}
