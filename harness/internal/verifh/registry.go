package verifh

func init() {
	register(propC01{})
	register(propC02{})
	register(propC07{})
	register(propC10{})
	register(propC11{})
	register(propC12{})
}
