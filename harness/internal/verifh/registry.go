package verifh

func init() {
	register(propC10{})
	register(propC11{})
	register(propC12{})
}
