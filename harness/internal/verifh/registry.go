package verifh

func init() {
	register(propC01{})
	register(propC02{})
	register(propC05{})
	register(propC06{})
	register(propC07{})
	register(propC08{})
	register(propC09{})
	register(propC10{})
	register(propC11{})
	register(propC12{})
	register(propC14{})
	register(propC17{})
	register(propC18{})
}
