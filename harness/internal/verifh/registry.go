package verifh

func init() {
	register(propC10{})
}
