package verifh

import (
	"bytes"
	"fmt"
	"image"
	"image/color"
	"os"
	"path/filepath"

	webp "github.com/deepteams/webp"
	"github.com/deepteams/webp/internal/vsim"
)

// C17 — decoding a truncated file is all-or-nothing. Fault enumeration: the
// simulated disk returns every proper prefix (a torn write at every byte) of every
// generated still file; several reader behaviours deliver it.

type C17Params struct {
	Img      ImgSpec `json:"img"`
	Opt      OptSpec `json:"opt"`
	Testdata string  `json:"testdata,omitempty"` // file name under /repo/testdata instead of (Img,Opt)
	// Craft != 0: a hand-crafted VP8 key frame (valid by construction: constructs no
	// encoder emits, 1-8 token partitions of odd sizes, skip flags off, ...) instead of (Img,Opt)
	Craft uint64 `json:"craft_seed,omitempty"`
	Procs    int     `json:"procs"`
	Seed     uint64  `json:"seed"`
	// Only: restrict the enumeration to this cut (replay / minimisation); -1 = all
	Only int `json:"only_cut"`
}

type propC17 struct{}

func (propC17) ID() string     { return "C17" }
func (propC17) Level() string  { return "fault_enumeration" }
func (propC17) NewParams() any { return &C17Params{Only: -1} }

func (propC17) Plan(tier string) (int, int) {
	if tier == "thorough" {
		return 150000, 0
	}
	return 600, 0
}

var testdataFiles = []string{"blue_16x16_lossy.webp", "gradient_8x8_lossless.webp", "red_4x4_lossless.webp", "red_4x4_lossy.webp"}

func (propC17) Gen(seed uint64, tier string, idx int) any {
	r := NewRNG(seed)
	p := &C17Params{Seed: r.Next(), Procs: r.Pick(1, 1, 4), Only: -1}
	if idx < len(testdataFiles) {
		p.Testdata = testdataFiles[idx]
		return p
	}
	if idx%9 == 8 {
		p.Craft = r.Next() | 1
		return p
	}
	maxSide := 40
	if tier == "thorough" && r.Pct(25) {
		maxSide = 120
	}
	// rotate through the still kinds the property lists
	switch idx % 8 {
	case 0: // lossy, 1/2/4/8 partitions
		p.Img = GenImgSpec(r, 1, maxSide, 0)
		p.Opt = GenLossyOpts(r, 0, false)
		p.Opt.Partitions = r.Intn(4)
	case 1: // lossless
		p.Img = GenImgSpec(r, 1, maxSide, 1)
		p.Opt = GenLosslessOpts(r, 0)
	case 2: // lossy + alpha, compressed alpha with each filter
		p.Img = GenImgSpec(r, 1, maxSide, 2)
		p.Opt = GenLossyOpts(r, 0, false)
		p.Opt.AlphaCompression = 1
		p.Opt.AlphaFiltering = r.Pick(0, 1, 2)
	case 3: // lossy + raw alpha
		p.Img = GenImgSpec(r, 1, maxSide, 2)
		p.Opt = GenLossyOpts(r, 0, false)
		p.Opt.AlphaCompression = 0
		p.Opt.AlphaFiltering = r.Pick(0, 1, 2)
	case 4: // VP8X with ICC before and EXIF/XMP after the image (lossy)
		p.Img = GenImgSpec(r, 1, maxSide, 1)
		p.Opt = GenLossyOpts(r, 100, false)
	case 5: // VP8X lossless + metadata
		p.Img = GenImgSpec(r, 1, maxSide, 1)
		p.Opt = GenLosslessOpts(r, 100)
	case 6:
		p.Img = GenImgSpec(r, 1, maxSide, 1)
		p.Opt = GenLossyOpts(r, 50, false)
		p.Opt.Partitions = 3
	default:
		p.Img = GenImgSpec(r, 1, maxSide, 1)
		if r.Bool() {
			p.Opt = GenLosslessOpts(r, 50)
		} else {
			p.Opt = GenLossyOpts(r, 50, false)
		}
	}
	switch p.Img.Type {
	case "paletted", "nrgba64", "sub", "nrgba64sub", "palsub", "rgbasub", "graysub":
		p.Img.Type = "nrgba"
	}
	if idx%8 >= 4 && !p.Opt.HasMeta() {
		p.Opt.ICCLen, p.Opt.XMPLen = 3, 8
	}
	return p
}

func (propC17) Shrink(pp any) []any { return nil }

func repoDir() string {
	if d := os.Getenv("VERIF_REPO"); d != "" {
		return d
	}
	return "/repo"
}

// cutRegion names where a cut lands relative to the file's chunk structure.
func cutRegion(wf *WFile, cut int) string {
	if cut < 12 {
		return "riff-header"
	}
	if wf == nil {
		return "?"
	}
	for _, c := range wf.Chunks {
		end := c.Off + 8 + c.Size + (c.Size & 1)
		switch {
		case cut == c.Off:
			return "before:" + c.FourCC
		case cut > c.Off && cut < c.Off+8:
			return "hdr:" + c.FourCC
		case cut >= c.Off+8 && cut < end:
			return "in:" + c.FourCC
		}
	}
	return "end"
}

type fullResult struct {
	img     image.Image
	digest  string
	decErr  error
	cfg     image.Config
	cfgErr  error
	feat    *webp.Features
	featErr error
}

func (propC17) Execute(pp any, x *X) *Violation {
	p := pp.(*C17Params)
	var data []byte
	name := p.Testdata
	if p.Testdata != "" {
		b, err := os.ReadFile(filepath.Join(repoDir(), "testdata", p.Testdata))
		if err != nil {
			x.Inconclusive = "cannot read testdata: " + err.Error()
			return nil
		}
		data = b
	} else if p.Craft != 0 {
		data = CraftVP8(NewRNG(p.Craft), VP8Craft{NoDamage: true, MaxLevel: 66})
		name = fmt.Sprintf("crafted-vp8 seed %d", p.Craft)
	} else {
		data = FileFor(p.Img, p.Opt)
		name = p.Img.String() + " " + p.Opt.String()
		if data == nil {
			x.Count("encode_refused", 1)
			return nil
		}
	}
	wf, werr := Walk(data)
	class := "?"
	if werr == nil {
		class = wf.Format
		if wf.Frames[0].Alph != nil {
			class += "+alph"
		}
		if p.Craft != 0 {
			class = "crafted-vp8"
		}
	}
	var viol *Violation
	enumerated := 0
	cutsAccepted := 0
	junk := truncatedAnimation()
	w := x.Explore(vsim.Config{Policy: vsim.PolCanonical, Procs: p.Procs, RandomPools: true, PoolHitPct: 100}, func() {
		// history: a failed parse of a truncated animation precedes the enumeration, and
		// pools hand back used objects, so state kept from failed parses is exposed
		if junk != nil {
			webp.GetFeatures(bytes.NewReader(junk))
			webp.Decode(bytes.NewReader(junk))
		}
		var full fullResult
		full.img, full.decErr = webp.Decode(bytes.NewReader(data))
		full.cfg, full.cfgErr = webp.DecodeConfig(bytes.NewReader(data))
		full.feat, full.featErr = webp.GetFeatures(bytes.NewReader(data))
		if full.decErr != nil {
			// not a valid still file for this package: outside the property's quantifier
			return
		}
		full.digest = DigestImage(full.img)
		rr := NewRNG(p.Seed)
		lo, hi := 0, len(data)
		if p.Only >= 0 {
			lo, hi = p.Only, p.Only+1
		}
		for cut := lo; cut < hi && viol == nil; cut++ {
			// large files (thorough tier): every cut in the last 64 bytes of each
			// chunk and in every header, every 17th elsewhere
			if len(data) > 8192 && p.Only < 0 && !nearChunkEdge(wf, cut) && cut%17 != 0 {
				continue
			}
			enumerated++
			prefix := data[:cut]
			variant := (cut + int(p.Seed%4)) % 4
			mk := func() interface{ Read([]byte) (int, error) } {
				switch variant {
				case 0:
					return bytes.NewReader(prefix) // has Len()
				case 3:
					// Len() still announces the complete file: a transfer of known length that was cut
					return NewSimReader(prefix, ReadPlan{Seed: rr.Next(), Mode: "mixed", HasLen: true, EOFWith: cut%2 == 0, ErrAt: -1, LenExtra: len(data) - cut})
				case 1:
					return NewSimReader(prefix, ReadPlan{Seed: rr.Next(), Mode: "whole", HasLen: false, ErrAt: -1})
				default:
					return NewSimReader(prefix, ReadPlan{Seed: rr.Next(), Mode: "mixed", HasLen: false, EOFWith: true, ErrAt: -1})
				}
			}
			region := cutRegion(wf, cut)
			if img, err := webp.Decode(mk()); err == nil {
				cutsAccepted++
				if d := DigestImage(img); d != full.digest {
					viol = &Violation{Prop: "C17", Sig: "truncation:Decode:" + class + ":" + region,
						Detail: fmt.Sprintf("%s (%d bytes): Decode of the %d-byte prefix succeeds with a picture different from the complete file's (%T %v digest %s vs %T %v digest %s); cut lands %s", name, len(data), cut, img, img.Bounds(), d, full.img, full.img.Bounds(), full.digest, region)}
					return
				}
			}
			if c, err := webp.DecodeConfig(mk()); err == nil {
				if full.cfgErr != nil || c.Width != full.cfg.Width || c.Height != full.cfg.Height || c.ColorModel != full.cfg.ColorModel {
					viol = &Violation{Prop: "C17", Sig: "truncation:DecodeConfig:" + class + ":" + region,
						Detail: fmt.Sprintf("%s (%d bytes): DecodeConfig of the %d-byte prefix succeeds with %dx%d model-is-YCbCr=%v, complete file: %dx%d model-is-YCbCr=%v err=%v; cut lands %s", name, len(data), cut, c.Width, c.Height, isYCbCr(c), full.cfg.Width, full.cfg.Height, isYCbCr(full.cfg), full.cfgErr, region)}
					return
				}
			}
			if f, err := webp.GetFeatures(mk()); err == nil {
				if full.featErr != nil || *f != *full.feat {
					viol = &Violation{Prop: "C17", Sig: "truncation:GetFeatures:" + class + ":" + region,
						Detail: fmt.Sprintf("%s (%d bytes): GetFeatures of the %d-byte prefix succeeds with %+v, complete file: %+v; cut lands %s", name, len(data), cut, *f, full.feat, region)}
					return
				}
			}
			// reader that ends with an error instead of EOF (sampled)
			if cut%16 == 5 {
				rd := NewSimReader(data, ReadPlan{Seed: rr.Next(), Mode: "mixed", HasLen: cut%32 == 5, ErrAt: cut})
				if img, err := webp.Decode(rd); err == nil {
					if d := DigestImage(img); d != full.digest {
						viol = &Violation{Prop: "C17", Sig: "read-error:Decode:" + class + ":" + region, Detail: fmt.Sprintf("%s: reader fails at offset %d, Decode returns a different picture", name, cut)}
						return
					}
				}
				x.Fault("read_error_instead_of_eof")
			}
			x.Fault("torn_write_prefix")
		}
	})
	x.Count("prefixes_enumerated", int64(enumerated))
	x.Count("prefixes_on_which_decode_succeeded", int64(cutsAccepted))
	x.Count("files", 1)
	x.Count("file_class_"+class, 1)
	x.Count("file_bytes", int64(len(data)))
	for c := 0; c < enumerated && c < 1<<20; c++ {
		// distinct non-trivial cases: <file, cut point> pairs with cut > 0
		if c > 0 {
			x.Case(hashString(name)^uint64(c)*0x9e3779b97f4a7c15, true)
		}
	}
	x.Workload(hashString(name))
	x.Sample(map[string]any{"file": name, "bytes": len(data), "class": class, "prefixes": enumerated, "exhaustive_for_this_file": len(data) <= 8192, "procs": p.Procs})
	if viol != nil {
		return viol
	}
	if v := x.WorldViolation("C17", w); v != nil {
		return v
	}
	return nil
}

func isYCbCr(c image.Config) bool { return c.ColorModel == color.YCbCrModel }

func nearChunkEdge(wf *WFile, cut int) bool {
	if wf == nil || cut < 20 {
		return true
	}
	for _, c := range wf.Chunks {
		end := c.Off + 8 + c.Size + (c.Size & 1)
		if (cut >= c.Off && cut < c.Off+24) || (cut >= end-64 && cut <= end) {
			return true
		}
	}
	return false
}

func (propC17) Describe() PropDoc {
	return PropDoc{
		Rule: "one run = one still file written by the real encoder (lossy with 1/2/4/8 partitions, lossless, lossy+raw/compressed alpha with each filter, VP8X with ICC before and EXIF/XMP after the image; plus the testdata files; every ninth file is a hand-crafted valid VP8 key frame with constructs no encoder emits) x EVERY proper prefix 0..len-1 (files over 8 KB: every prefix near chunk edges, every 17th elsewhere), each delivered by one of four reader behaviours (with Len(), without, piecewise with (n,EOF), with a Len() that still announces the complete file), plus a sampled reader that fails instead of EOF; Decode, DecodeConfig and GetFeatures are run on each. distinct non-trivial = distinct <file, cut point> pairs with cut > 0. Exhaustive per generated file, sampled over files.",
		Assumptions: []string{
			"the set of files is a seeded sample; for each file up to 8 KB the enumeration of cut points is complete",
			"'identical' compares type, bounds and every sample of the decoded image, and the full Config / Features structs",
		},
		Real:      []string{"every line of deepteams/webp, rewritten by simgen"},
		Simulated: []string{"the byte store (torn write at every byte)", "io.Reader behaviours incl. a failing read"},
		Reference: []string{"the same entry point on the complete file"},
		MustReach: []string{"torn_write_prefix", "read_error_instead_of_eof", "file_class_extended", "file_class_extended+alph", "file_class_lossy", "file_class_lossless", "file_class_crafted-vp8"},
	}
}

var truncAnimMemo []byte
var truncAnimDone bool

// truncatedAnimation: a small valid animation cut in the middle of its last frame.
func truncatedAnimation() []byte {
	if truncAnimDone {
		return truncAnimMemo
	}
	truncAnimDone = true
	r := NewRNG(4242)
	a := GenAnimSpec(r, 20, 4, true, 50)
	for len(a.Frames) < 3 {
		a.Frames = append(a.Frames, AFrame{Mut: "big", Dur: 40, Seed: r.Next()})
	}
	for i := range a.Frames {
		if i > 0 {
			a.Frames[i].Mut = "big"
		}
		a.Frames[i].Type = ""
		a.Frames[i].Dur = 40
	}
	if d := AnimFileFor(a); len(d) > 40 {
		truncAnimMemo = d[:len(d)-7]
	}
	return truncAnimMemo
}
