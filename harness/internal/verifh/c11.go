package verifh

import (
	"fmt"

	"github.com/deepteams/webp/internal/vsim"
	"github.com/deepteams/webp/internal/vsim/ssync"
)

// C11 — results do not depend on what was encoded or decoded before.
// One client executes a history of operations in one world whose pools return
// (PRNG-chosen) previously used objects; every result must equal the result of the
// same operation as the first operation of a fresh world, and every value already
// returned must stay unmodified.

type C11Params struct {
	Sched  SchedSpec `json:"sched"`
	Ops    []Op      `json:"ops"`
	Second []Op      `json:"second,omitempty"` // optional concurrent second client: objects cross tasks
	Fresh  bool      `json:"fresh_process,omitempty"`
}

type propC11 struct{}

func (propC11) ID() string     { return "C11" }
func (propC11) Level() string  { return "exploration" }
func (propC11) NewParams() any { return &C11Params{} }

func (propC11) Plan(tier string) (int, int) {
	if tier == "thorough" {
		return 500000, 0
	}
	return 10000, 0
}

// sizes drawn to collide: equal macroblock counts with different pixel sizes,
// larger-then-smaller, codec alternation.
func genHistory(r *RNG, n int) []Op {
	var ops []Op
	baseW, baseH := r.Pick(8, 16, 17, 31, 32, 33, 48, 49, 64, 80), r.Pick(8, 16, 17, 32, 48, 49, 50, 64, 65, 80)
	for i := 0; i < n; i++ {
		var op Op
		if r.Pct(7) {
			// two or three hand-crafted VP8 key frames of one size in a row: the first
			// sets persistent header state (loop-filter deltas, segment data and map, skip
			// flags), the following ones leave it to "whatever was there"
			w, h := r.Pick(16, 17, 32, 33, 48), r.Pick(16, 24, 32, 48)
			first := VP8Craft{LFDelta: r.PickS("set", "set", ""), Segment: r.PickS("set", "set", ""), W: w, H: h, NoDamage: r.Pct(80)}
			ops = append(ops, craftVP8Op(r, first))
			for k := r.Range(1, 2); k > 0; k-- {
				ops = append(ops, craftVP8Op(r, VP8Craft{LFDelta: r.PickS("keep", "partial", "keep", ""), Segment: r.PickS("keep", "data", "map", "off", ""), W: w, H: h, NoDamage: true}))
			}
			continue
		}
		switch r.Intn(10) {
		case 0:
			if r.Bool() {
				ops = append(ops, genAnimEncOp(r))
			} else {
				ops = append(ops, genHostileOp(r))
			}
			continue
		case 1, 2, 3:
			op = GenStillOp(r, 1, 80, true)
		default:
			op = GenStillOp(r, 1, 80, r.Pct(40))
			// collide with the base size: same macroblock grid, maybe different pixel size
			switch r.Intn(4) {
			case 0:
				op.Img.W, op.Img.H = baseW, baseH
			case 1:
				op.Img.W = (baseW+15)/16*16 - r.Intn(16)
				op.Img.H = (baseH+15)/16*16 - r.Intn(16)
			case 2:
				op.Img.W, op.Img.H = baseW/2+1, baseH/2+1
			case 3:
				op.Img.W, op.Img.H = baseW*2, baseH
			}
			if op.Img.W < 1 {
				op.Img.W = 1
			}
			if op.Img.H < 1 {
				op.Img.H = 1
			}
		}
		if r.Pct(35) && i > 0 && ops[len(ops)-1].Kind == "enc" && !ops[len(ops)-1].Opt.Lossless {
			// the same lossy options as the previous call (so that option-gated scratch
			// state such as segment smoothing or dithering is exercised twice in a row), on
			// another picture with the same macroblock grid
			prev := ops[len(ops)-1]
			op.Kind = "enc"
			op.Opt = prev.Opt
			if r.Bool() {
				op.Opt.Preprocessing = r.Pick(1, 2, 3)
				ops[len(ops)-1].Opt.Preprocessing = op.Opt.Preprocessing
			}
			op.Img.W = (prev.Img.W+15)/16*16 - r.Intn(16)
			op.Img.H = (prev.Img.H+15)/16*16 - r.Intn(16)
			if op.Img.W < 1 {
				op.Img.W = 1
			}
			if op.Img.H < 1 {
				op.Img.H = 1
			}
			if r.Bool() {
				op.Img.Alpha = "opaque"
			}
		}
		if r.Pct(25) && i > 0 {
			// same image and codec as an earlier op, different options
			prev := ops[r.Intn(len(ops))]
			if prev.Kind == "animenc" || prev.Kind == "hostile" {
				prev = op
			}
			op.Img = prev.Img
			if op.Opt.Lossless != prev.Opt.Lossless {
				op.Opt.Lossless = prev.Opt.Lossless
			}
		}
		ops = append(ops, op)
	}
	return ops
}

func (propC11) Gen(seed uint64, tier string, idx int) any {
	r := NewRNG(seed)
	p := &C11Params{}
	p.Sched = SchedSpec{Seed: r.Next(), Policy: vsim.PolCanonical, Procs: r.Pick(1, 1, 4), PoolHitPct: 90, RandomPools: true}
	if r.Pct(20) {
		p.Sched.PoolHitPct = 100
	}
	if r.Pct(25) {
		p.Sched.PoolDropPm = 100
	}
	if r.Pct(15) {
		p.Sched.PoolGCPm = 30
	}
	p.Ops = genHistory(r, r.Range(2, 8))
	if r.Pct(20) {
		p.Second = genHistory(r, r.Range(1, 3))
		p.Sched.Policy = vsim.PolSticky
		p.Sched.StickyPct = 95
	}
	p.Fresh = idx%60 == 0
	return p
}

func (propC11) Shrink(pp any) []any {
	p := pp.(*C11Params)
	var out []any
	if len(p.Second) > 0 {
		q := *p
		q.Second = nil
		q.Sched.Policy = vsim.PolCanonical
		out = append(out, &q)
	}
	if len(p.Ops) > 1 {
		for i := range p.Ops {
			q := *p
			q.Ops = append(append([]Op{}, p.Ops[:i]...), p.Ops[i+1:]...)
			out = append(out, &q)
		}
	}
	if p.Sched.PoolDropPm != 0 || p.Sched.PoolGCPm != 0 {
		q := *p
		q.Sched.PoolDropPm, q.Sched.PoolGCPm = 0, 0
		out = append(out, &q)
	}
	return out
}

func (propC11) Execute(pp any, x *X) *Violation {
	p := pp.(*C11Params)
	inputs := make([][]byte, len(p.Ops))
	for i, op := range p.Ops {
		if needsInput(op) {
			inputs[i] = InputFor(op)
		}
	}
	inputs2 := make([][]byte, len(p.Second))
	for i, op := range p.Second {
		if needsInput(op) {
			inputs2[i] = InputFor(op)
		}
	}
	results := make([]Result, len(p.Ops))
	var mutated string
	recheck := func(upto int) {
		for j := 0; j <= upto && mutated == ""; j++ {
			r := results[j]
			if r.Err {
				continue
			}
			if r.Bytes != nil && DigestBytes(r.Bytes) != r.Digest {
				mutated = fmt.Sprintf("bytes returned by op %d (%s) were modified by a later call (after op %d)", j, p.Ops[j].String(), upto)
			}
			if r.Img != nil && DigestImage(r.Img) != r.Digest {
				mutated = fmt.Sprintf("image returned by op %d (%s) was modified by a later call (after op %d)", j, p.Ops[j].String(), upto)
			}
		}
	}
	w := x.Explore(p.Sched.Config(), func() {
		var wg ssync.WaitGroup
		if len(p.Second) > 0 {
			wg.Add(1)
			vsim.Go(2, func() {
				defer wg.Done()
				for i, op := range p.Second {
					ExecOp(op, inputs2[i])
				}
			})
		}
		for i, op := range p.Ops {
			results[i] = ExecOp(op, inputs[i])
			recheck(i)
		}
		wg.Wait()
		recheck(len(p.Ops) - 1)
	})
	hits := w.Probes[vsim.PPoolHit]
	x.Case(w.Hash^hashString(fmt.Sprint(len(p.Ops))), hits > 0)
	x.Count("histories_with_pool_reuse", b2i(hits > 0))
	x.Count("ops_in_histories", int64(len(p.Ops)))
	x.Sample(map[string]any{"sched": p.Sched, "history": describeClients([][]Op{p.Ops}), "pool_hits": hits, "second_client_ops": len(p.Second)})
	if v := x.WorldViolation("C11", w); v != nil {
		return v
	}
	if x.Inconclusive != "" {
		return nil
	}
	if mutated != "" {
		return &Violation{Prop: "C11", Sig: "returned-value-mutated", Detail: mutated}
	}
	for i, op := range p.Ops {
		x.Workload(hashString(op.Key()))
		want, v := soloResult(x, op, p.Sched.Procs, inputs[i])
		if v != nil {
			v.Prop = "C11"
			return v
		}
		if !results[i].Same(want) {
			return &Violation{Prop: "C11", Sig: "history:" + op.Kind + ":" + codecOf(op),
				Detail: fmt.Sprintf("op %d of the history (%s) -> %s; the same call as the first call of a fresh world (worker count %d) -> %s; history before it: %v", i, op.String(), results[i].Short(), p.Sched.Procs, want.Short(), describeClients([][]Op{p.Ops[:i]}))}
		}
	}
	if p.Fresh && !x.Quiet && len(p.Ops) > 0 {
		// package-level state that is not a pool: the last op of the history, executed
		// in a fresh OS process by the un-rewritten library, must agree as well.
		i := len(p.Ops) - 1
		d, err := realOp(p.Ops[i], inputs[i], p.Sched.Procs)
		if err != nil {
			x.Inconclusive = "fresh-process probe failed: " + err.Error()
			return nil
		}
		if d != results[i].Short() {
			// either history dependence outside the pools or a worker-count effect of the
			// real runtime; re-check against the simulated solo result to tell
			want, _ := soloResult(x, p.Ops[i], p.Sched.Procs, inputs[i])
			if d != want.Short() {
				x.Inconclusive = fmt.Sprintf("fresh-process probe: un-rewritten library GOMAXPROCS=%d -> %s, simulated solo -> %s (%s)", p.Sched.Procs, d, want.Short(), p.Ops[i].String())
				return nil
			}
		}
		x.Count("fresh_process_probes_ok", 1)
	}
	return nil
}

func b2i(b bool) int64 {
	if b {
		return 1
	}
	return 0
}

func (propC11) Describe() PropDoc {
	return PropDoc{
		Rule: "one run = one seeded history of 2-8 public-API calls (sizes drawn to collide on pooled-object dimensions) executed by one client in one world whose nine pools return PRNG-chosen previously used objects (hit probability 90-100 %, optional drops and simulated GC; 20 % of runs add a concurrent second client so objects cross tasks). distinct = distinct hash of the explored world's operation sequence; non-trivial = at least one Pool.Get returned a reused object.",
		Assumptions: []string{
			"the simulated Pool may return any previously Put object or miss, which is what sync.Pool permits",
			"package-level state that is not a pool is covered only by the sampled fresh-OS-process probe",
			"sampling over histories: a clean batch is evidence, not proof",
		},
		Real:      []string{"every line of deepteams/webp, rewritten by simgen"},
		Simulated: []string{"sync.Pool (which object Get returns, drops, GC)", "other sync primitives, canonical or sticky schedule"},
		Reference: []string{"the same call as the first call of a fresh world (pools empty), and on a sample in a fresh OS process with the un-rewritten library"},
		MustReach: []string{"pool_hit", "histories_with_pool_reuse"},
	}
}

func craftVP8Op(r *RNG, c VP8Craft) Op {
	return Op{Kind: "hostile", Hostile: &C05Params{Base: "craftvp8", Seed: r.Next(), VP8: &c}}
}

// genHostileOp: every decoding entry point on a corrupted or truncated stored file
// (stills and animations) as one operation of a history.
func genHostileOp(r *RNG) Op {
	p := propC05{}.Gen(r.Next(), "quick", 1).(*C05Params)
	if p.Base == "mux" || p.Base == "random" {
		p.Base = "anim"
		a := GenAnimSpec(r, 24, 5, r.Bool(), 50)
		p.Anim = &a
	}
	if r.Pct(50) {
		p.Faults = []CorruptOp{{Kind: "truncate", Pos: r.Intn(1000)}}
	}
	return Op{Kind: "hostile", Hostile: p}
}
