package verifh

import (
	"fmt"

	webp "github.com/deepteams/webp"
)

// OptSpec mirrors webp.EncoderOptions (JSON-able, metadata as lengths+seed).
type OptSpec struct {
	Lossless         bool    `json:"lossless,omitempty"`
	Quality          float32 `json:"q"`
	Method           int     `json:"m"`
	Preset           int     `json:"preset,omitempty"`
	UseSharpYUV      bool    `json:"sharp,omitempty"`
	Exact            bool    `json:"exact,omitempty"`
	TargetSize       int     `json:"tsize,omitempty"`
	TargetPSNR       float32 `json:"tpsnr,omitempty"`
	Preprocessing    int     `json:"prep,omitempty"`
	SNSStrength      int     `json:"sns"`
	FilterStrength   int     `json:"fstr"`
	FilterSharpness  int     `json:"fsharp,omitempty"`
	FilterType       int     `json:"ftype"`
	Partitions       int     `json:"parts,omitempty"`
	Segments         int     `json:"segs"`
	Pass             int     `json:"pass"`
	QMin             int     `json:"qmin,omitempty"`
	QMax             int     `json:"qmax"`
	AlphaCompression int     `json:"acomp"`
	AlphaFiltering   int     `json:"afilt"`
	AlphaQuality     int     `json:"aq"`
	ICCLen           int     `json:"icc"` // -1 = nil
	EXIFLen          int     `json:"exif"`
	XMPLen           int     `json:"xmp"`
	MetaSeed         uint64  `json:"mseed,omitempty"`
}

func (o OptSpec) String() string {
	if o.Lossless {
		return fmt.Sprintf("LL q%.0f m%d ex%v meta%d/%d/%d", o.Quality, o.Method, o.Exact, o.ICCLen, o.EXIFLen, o.XMPLen)
	}
	return fmt.Sprintf("LY q%.0f m%d seg%d part%d pass%d sns%d f%d/%d/%d pre%d sharp%v ts%d tp%.0f a%d/%d/%d meta%d/%d/%d", o.Quality, o.Method, o.Segments, o.Partitions, o.Pass, o.SNSStrength, o.FilterStrength, o.FilterSharpness, o.FilterType, o.Preprocessing, o.UseSharpYUV, o.TargetSize, o.TargetPSNR, o.AlphaCompression, o.AlphaFiltering, o.AlphaQuality, o.ICCLen, o.EXIFLen, o.XMPLen)
}

func metaBlob(seed uint64, label string, n int) []byte {
	if n < 0 {
		return nil
	}
	r := NewRNG(Derive(seed, label))
	b := make([]byte, n)
	for i := range b {
		b[i] = byte(r.Next())
	}
	return b
}

func (o OptSpec) ICC() []byte  { return metaBlob(o.MetaSeed, "icc", o.ICCLen) }
func (o OptSpec) EXIF() []byte { return metaBlob(o.MetaSeed, "exif", o.EXIFLen) }
func (o OptSpec) XMP() []byte  { return metaBlob(o.MetaSeed, "xmp", o.XMPLen) }

func (o OptSpec) HasMeta() bool { return o.ICCLen > 0 || o.EXIFLen > 0 || o.XMPLen > 0 }

func (o OptSpec) ToOptions() *webp.EncoderOptions {
	return &webp.EncoderOptions{
		Lossless: o.Lossless, Quality: o.Quality, Method: o.Method, Preset: webp.Preset(o.Preset),
		UseSharpYUV: o.UseSharpYUV, Exact: o.Exact, TargetSize: o.TargetSize, TargetPSNR: o.TargetPSNR,
		Preprocessing: o.Preprocessing, SNSStrength: o.SNSStrength, FilterStrength: o.FilterStrength,
		FilterSharpness: o.FilterSharpness, FilterType: o.FilterType, Partitions: o.Partitions,
		Segments: o.Segments, Pass: o.Pass, QMin: o.QMin, QMax: o.QMax,
		AlphaCompression: o.AlphaCompression, AlphaFiltering: o.AlphaFiltering, AlphaQuality: o.AlphaQuality,
		ICC: o.ICC(), EXIF: o.EXIF(), XMP: o.XMP(),
	}
}

func defaultOptSpec() OptSpec {
	return OptSpec{Quality: 75, Method: 4, SNSStrength: -1, FilterStrength: -1, FilterType: -1, Segments: -1, Pass: -1, QMax: -1,
		AlphaCompression: -1, AlphaFiltering: -1, AlphaQuality: -1, ICCLen: -1, EXIFLen: -1, XMPLen: -1}
}

var qualityHits = []float32{0, 1, 24, 25, 49, 50, 74, 75, 76, 89, 90, 99, 100}

func genQuality(r *RNG) float32 {
	if r.Pct(60) {
		return qualityHits[r.Intn(len(qualityHits))]
	}
	return float32(r.Intn(101))
}

func genMeta(r *RNG, o *OptSpec, pct int) {
	o.MetaSeed = r.Next()
	lens := []int{0, 1, 2, 3, 7, 8, 33, 100, 257}
	if r.Pct(pct) {
		if r.Bool() {
			o.ICCLen = lens[r.Intn(len(lens))]
		}
		if r.Bool() {
			o.EXIFLen = lens[r.Intn(len(lens))]
		}
		if r.Bool() {
			o.XMPLen = lens[r.Intn(len(lens))]
		}
	}
}

// GenLosslessOpts draws a lossless option set.
func GenLosslessOpts(r *RNG, metaPct int) OptSpec {
	o := defaultOptSpec()
	o.Lossless = true
	o.Quality = genQuality(r)
	o.Method = r.Intn(7)
	o.Exact = r.Pct(30)
	genMeta(r, &o, metaPct)
	return o
}

// GenLossyOpts draws a lossy option set. heavy enables the slow options
// (multi-pass, target size/PSNR) with some probability.
func GenLossyOpts(r *RNG, metaPct int, heavy bool) OptSpec {
	o := defaultOptSpec()
	o.Quality = genQuality(r)
	o.Method = r.Intn(7)
	if r.Pct(30) {
		o.Preset = r.Intn(6)
	}
	o.UseSharpYUV = r.Pct(10)
	o.Exact = r.Pct(20)
	if r.Pct(60) {
		o.Segments = r.Pick(-1, 0, 1, 2, 3, 4)
	}
	if r.Pct(50) {
		o.Partitions = r.Intn(4)
	}
	if r.Pct(40) {
		o.SNSStrength = r.Pick(-1, 0, 25, 50, 80, 100)
	}
	if r.Pct(50) {
		o.FilterStrength = r.Pick(-1, 0, 0, 10, 35, 60, 100)
	}
	if r.Pct(30) {
		o.FilterSharpness = r.Intn(8)
	}
	if r.Pct(30) {
		o.FilterType = r.Pick(-1, 0, 1)
	}
	if r.Pct(20) {
		o.Preprocessing = r.Intn(4)
	}
	if r.Pct(20) {
		o.QMin = r.Intn(40)
		o.QMax = o.QMin + r.Intn(101-o.QMin)
	}
	if heavy {
		if r.Pct(15) {
			o.Pass = r.Range(2, 4)
		}
		if r.Pct(12) {
			// rate control: few and many passes (the search takes small last steps only
			// when it is given room), targets from unreachable to generous
			o.TargetSize = r.Pick(r.Range(200, 3000), r.Range(200, 3000), r.Range(1000, 8000), r.Range(20, 200))
			o.Pass = r.Pick(1, 2, 3, 4, 6, 8, 10)
		} else if r.Pct(8) {
			o.TargetPSNR = float32(r.Range(28, 45))
			o.Pass = r.Pick(1, 2, 3, 4, 6, 10)
		}
	}
	if r.Pct(50) {
		o.AlphaCompression = r.Pick(-1, 0, 1)
		o.AlphaFiltering = r.Pick(-1, 0, 1, 2)
	}
	if r.Pct(25) {
		o.AlphaQuality = r.Pick(0, 10, 50, 70, 71, 90, 99, 100)
	}
	genMeta(r, &o, metaPct)
	return o
}
