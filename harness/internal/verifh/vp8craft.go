package verifh

import (
	"bytes"
	"encoding/binary"
	"fmt"
	"image"
	"math/bits"
	"os"

	webp "github.com/deepteams/webp"
	"github.com/deepteams/webp/internal/verifx/ximage/vp8"
)

// Hand-crafted VP8 key frames. Neither this package's encoder nor libwebp's ever writes
// a stream with loop-filter deltas, with a segment header that relies on values "kept
// from before", with absolute segment quantisers, with coefficient-probability updates
// on arbitrary positions, with DCT-extra-bits categories 5/6, with B_PRED sub-block
// modes chosen freely at the picture borders, or with a segment map whose tree
// probabilities are partly absent -- yet all of these are well-formed RFC 6386 syntax
// that a decoder (and its pooled, reused state) must handle. This writer is the mirror
// image of the key-frame syntax: its own boolean *encoder*, a seeded choice for every
// header field and every macroblock symbol, and the context bookkeeping a writer needs
// (intra-mode contexts, non-zero contexts, the running coefficient-probability table).
// The constant tables of the specification come from the vendored reference decoder.
//
// A crafted stream is valid by construction unless a "damage" variant is drawn
// (partition table lies, truncation, header tampering).

type boolW struct {
	out    []byte
	rng    int32 // range - 1
	value  int32
	run    int
	nbBits int
}

func newBoolW() *boolW { return &boolW{rng: 254, nbBits: -8} }

func (w *boolW) flush() {
	s := uint(8 + w.nbBits)
	b := w.value >> s
	w.value -= b << s
	w.nbBits -= 8
	if b&0xff != 0xff {
		if b&0x100 != 0 && len(w.out) > 0 {
			w.out[len(w.out)-1]++
		}
		if w.run > 0 {
			v := byte(0xff)
			if b&0x100 != 0 {
				v = 0
			}
			for ; w.run > 0; w.run-- {
				w.out = append(w.out, v)
			}
		}
		w.out = append(w.out, byte(b))
	} else {
		w.run++
	}
}

func (w *boolW) put(bit bool, prob uint8) {
	split := (w.rng * int32(prob)) >> 8
	if bit {
		w.value += split + 1
		w.rng -= split + 1
	} else {
		w.rng = split
	}
	if w.rng < 127 {
		shift := 8 - bits.Len32(uint32(w.rng+1))
		w.rng = ((w.rng + 1) << uint(shift)) - 1
		w.value <<= uint(shift)
		w.nbBits += shift
		if w.nbBits > 0 {
			w.flush()
		}
	}
}

func (w *boolW) putBit(b int, prob uint8) { w.put(b != 0, prob) }

// lit writes an n-bit unsigned literal, most significant bit first.
func (w *boolW) lit(v uint32, n int) {
	for i := n - 1; i >= 0; i-- {
		w.put(v>>uint(i)&1 != 0, 128)
	}
}

// optInt: flag, then magnitude and sign (section 9.3 / 9.6 "optional signed value").
func (w *boolW) optInt(present bool, v int, n int) {
	if !present {
		w.put(false, 128)
		return
	}
	w.put(true, 128)
	a := v
	if a < 0 {
		a = -a
	}
	w.lit(uint32(a), n)
	w.put(v < 0, 128)
}

func (w *boolW) finish() []byte {
	w.lit(0, 9-w.nbBits)
	w.nbBits = 0
	w.flush()
	return w.out
}

var (
	vp8UpdateProb, vp8DefaultProb [4][8][3][11]uint8
	vp8PredProb                   [10][10][9]uint8
	vp8Cat                        [4][12]uint8
)

func init() {
	vp8UpdateProb, vp8DefaultProb, vp8PredProb, vp8Cat = vp8.VerifTables()
}

var vp8Bands = [17]int{0, 1, 2, 3, 6, 4, 5, 6, 6, 6, 6, 6, 6, 6, 6, 7, 0}

// sub-block prediction modes in the reference decoder's numbering
const (
	cpDC = iota
	cpTM
	cpVE
	cpHE
	cpRD
	cpVR
	cpLD
	cpVL
	cpHD
	cpHU
)

// VP8Craft steers the crafter from a history generator (C11): which parts of the
// decoder's persistent header state a stream sets and which it leaves to "whatever was
// there" (which, for a still picture, must mean the defaults).
type VP8Craft struct {
	// LFDelta: "" = drawn, "set" = use_lf_delta with an update carrying non-zero deltas,
	// "keep" = use_lf_delta without update, "partial" = update that touches some entries
	LFDelta string `json:"lf_delta,omitempty"`
	// Segment: "" = drawn, "set" = segmentation with map and data update,
	// "keep" = segmentation enabled, neither map nor data updated
	Segment string `json:"segment,omitempty"`
	// W,H force the picture size (0 = drawn), so that two streams share one pooled decoder
	W int `json:"w,omitempty"`
	H int `json:"h,omitempty"`
	// NoDamage: never draw a damage variant
	NoDamage bool `json:"no_damage,omitempty"`
	// MaxLevel > 0 bounds the coefficient levels (self-test: keeps every intermediate
	// value inside 16 bits, where all decoders must agree)
	MaxLevel int `json:"max_level,omitempty"`
}

var lastCraftDesc string

type vp8Writer struct {
	r        *RNG
	mbw, mbh int
	fp       *boolW
	parts    []*boolW
	prob     [4][8][3][11]uint8
	// contexts
	topModes  []uint8 // 4 per macroblock column
	leftModes [4]uint8
	topNzY    []uint8 // 4 per column
	topNzU    []uint8 // 2 per column
	topNzV    []uint8
	topNzY2   []uint8
	leftNzY   [4]uint8
	leftNzU   [2]uint8
	leftNzV   [2]uint8
	leftNzY2  uint8
	bigCoeffs bool
	maxLevel  int
}

// putCoeffs mirrors the token syntax of section 13: levels in scan (zigzag) order.
func (vw *vp8Writer) putCoeffs(w *boolW, plane int, ctx uint8, first int, levels *[16]int) uint8 {
	prob := &vw.prob[plane]
	last := -1
	for i := first; i < 16; i++ {
		if levels[i] != 0 {
			last = i
		}
	}
	n := first
	p := &prob[vp8Bands[n]][ctx]
	if last < 0 {
		w.put(false, p[0])
		return 0
	}
	w.put(true, p[0])
	for n < 16 {
		v := levels[n]
		n++
		if v == 0 {
			w.put(false, p[1])
			p = &prob[vp8Bands[n]][0]
			continue
		}
		w.put(true, p[1])
		a := v
		if a < 0 {
			a = -a
		}
		if a == 1 {
			w.put(false, p[2])
			p = &prob[vp8Bands[n]][1]
		} else {
			w.put(true, p[2])
			switch {
			case a <= 4:
				w.put(false, p[3])
				if a == 2 {
					w.put(false, p[4])
				} else {
					w.put(true, p[4])
					w.put(a == 4, p[5])
				}
			case a <= 10:
				w.put(true, p[3])
				w.put(false, p[6])
				if a <= 6 {
					w.put(false, p[7])
					w.put(a == 6, 159)
				} else {
					w.put(true, p[7])
					w.put((a-7)>>1&1 != 0, 165)
					w.put((a-7)&1 != 0, 145)
				}
			default:
				w.put(true, p[3])
				w.put(true, p[6])
				cat := 0
				for cat < 3 && a >= 3+(8<<uint(cat+1)) {
					cat++
				}
				w.put(cat>>1 != 0, p[8])
				w.put(cat&1 != 0, p[9+cat>>1])
				res := a - (3 + (8 << uint(cat)))
				nb := 0
				for vp8Cat[cat][nb] != 0 {
					nb++
				}
				for i := 0; i < nb; i++ {
					w.put(res>>uint(nb-1-i)&1 != 0, vp8Cat[cat][i])
				}
			}
			p = &prob[vp8Bands[n]][2]
		}
		w.put(v < 0, 128)
		if n == 16 {
			return 1
		}
		if n-1 == last {
			w.put(false, p[0])
			return 1
		}
		w.put(true, p[0])
	}
	return 1
}

// genLevels draws the coefficient levels of one block.
func (vw *vp8Writer) genLevels(first int, density int) (lv [16]int) {
	r := vw.r
	if !r.Pct(density) {
		return
	}
	n := r.Pick(1, 1, 1, 2, 2, 3, 5, 9, 16)
	for k := 0; k < n; k++ {
		pos := first + r.Intn(16-first)
		if r.Pct(50) {
			pos = first + r.Intn(minInt(3, 16-first))
		}
		var a int
		switch v := r.Intn(100); {
		case v < 45:
			a = 1
		case v < 65:
			a = 2
		case v < 80:
			a = r.Range(3, 4)
		case v < 90:
			a = r.Range(5, 10)
		case v < 97:
			a = r.Range(11, 66)
		default:
			a = r.Pick(67, 68, 100, 300, 1000, 2048, 2113, 2114)
			if !vw.bigCoeffs {
				a = 67
			}
		}
		if vw.maxLevel > 0 && a > vw.maxLevel {
			a = vw.maxLevel
		}
		if r.Bool() {
			a = -a
		}
		lv[pos] = a
	}
	return
}

func minInt(a, b int) int {
	if a < b {
		return a
	}
	return b
}

func (vw *vp8Writer) putBMode(top, left uint8, m uint8) {
	p := &vp8PredProb[top][left]
	w := vw.fp
	switch m {
	case cpDC:
		w.put(false, p[0])
	case cpTM:
		w.put(true, p[0])
		w.put(false, p[1])
	case cpVE:
		w.put(true, p[0])
		w.put(true, p[1])
		w.put(false, p[2])
	case cpHE, cpRD, cpVR:
		w.put(true, p[0])
		w.put(true, p[1])
		w.put(true, p[2])
		w.put(false, p[3])
		if m == cpHE {
			w.put(false, p[4])
		} else {
			w.put(true, p[4])
			w.put(m == cpVR, p[5])
		}
	default:
		w.put(true, p[0])
		w.put(true, p[1])
		w.put(true, p[2])
		w.put(true, p[3])
		if m == cpLD {
			w.put(false, p[6])
		} else {
			w.put(true, p[6])
			if m == cpVL {
				w.put(false, p[7])
			} else {
				w.put(true, p[7])
				w.put(m == cpHU, p[8])
			}
		}
	}
}

// CraftVP8 returns a RIFF/WebP file with one hand-written 'VP8 ' chunk.
func CraftVP8(r *RNG, c VP8Craft) []byte {
	vw := &vp8Writer{r: r}
	W, H := c.W, c.H
	if W == 0 {
		W = r.Pick(1, 2, 7, 15, 16, 17, 31, 32, 33, 40, 48, 64, 70)
		H = r.Pick(1, 3, 8, 16, 17, 24, 32, 33, 47, 48, 64)
		if r.Pct(15) {
			W, H = r.Range(1, 96), r.Range(1, 96)
		}
	}
	vw.mbw, vw.mbh = (W+15)/16, (H+15)/16
	vw.prob = vp8DefaultProb
	vw.bigCoeffs = r.Pct(30)
	vw.maxLevel = c.MaxLevel
	fp := newBoolW()
	vw.fp = fp
	// -- frame header (section 9.2 - 9.11, 19.2) --
	fp.lit(uint32(r.Intn(2)), 1) // colour space
	fp.lit(uint32(r.Intn(2)), 1) // clamping type
	// segmentation
	seg := c.Segment
	if seg == "" {
		seg = r.PickS("off", "off", "set", "set", "map", "data", "keep")
	}
	useSeg := seg != "off"
	updMap := seg == "set" || seg == "map"
	updData := seg == "set" || seg == "data"
	var segProb [3]uint8
	fp.put(useSeg, 128)
	if useSeg {
		fp.put(updMap, 128)
		fp.put(updData, 128)
		if updData {
			abs := r.Pct(40)
			fp.put(abs, 128)
			for i := 0; i < 4; i++ {
				q := r.Range(-40, 40)
				if abs {
					q = r.Range(0, 127)
				}
				if r.Pct(10) {
					q = r.Pick(-127, 127, 0, 64)
				}
				fp.optInt(r.Pct(75), q, 7)
			}
			for i := 0; i < 4; i++ {
				f := r.Range(-20, 20)
				if abs {
					f = r.Range(0, 63)
				}
				if r.Pct(10) {
					f = r.Pick(-63, 63)
				}
				fp.optInt(r.Pct(75), f, 6)
			}
		}
		if updMap {
			for i := 0; i < 3; i++ {
				segProb[i] = 255
				if r.Pct(70) {
					segProb[i] = uint8(r.Pick(1, 64, 128, 200, 255, r.Range(0, 255)))
					fp.put(true, 128)
					fp.lit(uint32(segProb[i]), 8)
				} else {
					fp.put(false, 128)
				}
			}
		}
	}
	// loop filter
	fp.put(r.Bool(), 128) // simple filter
	level := r.Pick(0, 0, 1, 8, 20, 40, 63, r.Range(0, 63))
	if c.LFDelta != "" || c.Segment != "" {
		level = r.Pick(8, 20, 40, 63, r.Range(1, 63))
	}
	fp.lit(uint32(level), 6)
	fp.lit(uint32(r.Intn(8)), 3) // sharpness
	lfd := c.LFDelta
	if lfd == "" {
		lfd = r.PickS("off", "off", "set", "keep", "partial")
	}
	fp.put(lfd != "off", 128)
	if lfd != "off" {
		fp.put(lfd != "keep", 128)
		if lfd != "keep" {
			for i := 0; i < 8; i++ {
				present := lfd == "set" || r.Pct(40)
				d := r.Pick(-63, -30, -8, -2, 2, 8, 30, 63, r.Range(-63, 63))
				if lfd == "set" && d == 0 {
					d = 12
				}
				fp.optInt(present, d, 6)
			}
		}
	}
	// token partitions
	log2parts := r.Pick(0, 0, 1, 2, 3)
	fp.lit(uint32(log2parts), 2)
	nParts := 1 << uint(log2parts)
	for i := 0; i < nParts; i++ {
		vw.parts = append(vw.parts, newBoolW())
	}
	// quantiser indices
	fp.lit(uint32(r.Pick(0, 10, 40, 80, 127, r.Range(0, 127))), 7)
	for i := 0; i < 5; i++ {
		fp.optInt(r.Pct(25), r.Range(-15, 15), 4)
	}
	fp.put(r.Bool(), 128) // refresh_entropy_probs
	// coefficient probability updates
	nUpd := r.Pick(0, 0, 1, 3, 20, 200)
	upd := map[[4]int]uint8{}
	for k := 0; k < nUpd; k++ {
		upd[[4]int{r.Intn(4), r.Intn(8), r.Intn(3), r.Intn(11)}] = uint8(r.Pick(1, 2, 128, 254, 255, r.Range(1, 255)))
	}
	for i := 0; i < 4; i++ {
		for j := 0; j < 8; j++ {
			for k := 0; k < 3; k++ {
				for l := 0; l < 11; l++ {
					v, ok := upd[[4]int{i, j, k, l}]
					fp.put(ok, vp8UpdateProb[i][j][k][l])
					if ok {
						fp.lit(uint32(v), 8)
						vw.prob[i][j][k][l] = v
					}
				}
			}
		}
	}
	useSkip := r.Pct(70)
	skipProb := uint8(r.Pick(1, 30, 128, 220, 255, r.Range(0, 255)))
	fp.put(useSkip, 128)
	if useSkip {
		fp.lit(uint32(skipProb), 8)
	}
	// -- macroblocks --
	vw.topModes = make([]uint8, 4*vw.mbw)
	vw.topNzY = make([]uint8, 4*vw.mbw)
	vw.topNzU = make([]uint8, 2*vw.mbw)
	vw.topNzV = make([]uint8, 2*vw.mbw)
	vw.topNzY2 = make([]uint8, vw.mbw)
	density := r.Pick(0, 5, 20, 50, 90)
	b4Pct := r.Pick(0, 20, 50, 100)
	skipPct := r.Pick(0, 30, 80, 100)
	lastCraftDesc = fmt.Sprintf("seg=%s lfd=%s level=%d parts=%d nUpd=%d useSkip=%v density=%d b4=%d skipPct=%d", seg, lfd, level, nParts, nUpd, useSkip, density, b4Pct, skipPct)
	for mby := 0; mby < vw.mbh; mby++ {
		vw.leftModes = [4]uint8{}
		vw.leftNzY, vw.leftNzU, vw.leftNzV, vw.leftNzY2 = [4]uint8{}, [2]uint8{}, [2]uint8{}, 0
		tp := vw.parts[mby&(nParts-1)]
		for mbx := 0; mbx < vw.mbw; mbx++ {
			if updMap {
				s := r.Intn(4)
				fp.put(s >= 2, segProb[0])
				if s < 2 {
					fp.put(s == 1, segProb[1])
				} else {
					fp.put(s == 3, segProb[2])
				}
			}
			skip := false
			if useSkip {
				skip = r.Pct(skipPct)
				fp.put(skip, skipProb)
			}
			i16 := !r.Pct(b4Pct)
			fp.put(i16, 145)
			if i16 {
				m := uint8(r.Pick(cpDC, cpVE, cpHE, cpTM))
				switch m {
				case cpDC:
					fp.put(false, 156)
					fp.put(false, 163)
				case cpVE:
					fp.put(false, 156)
					fp.put(true, 163)
				case cpHE:
					fp.put(true, 156)
					fp.put(false, 128)
				default:
					fp.put(true, 156)
					fp.put(true, 128)
				}
				for i := 0; i < 4; i++ {
					vw.topModes[4*mbx+i] = m
					vw.leftModes[i] = m
				}
			} else {
				for j := 0; j < 4; j++ {
					left := vw.leftModes[j]
					for i := 0; i < 4; i++ {
						m := uint8(r.Intn(10))
						vw.putBMode(vw.topModes[4*mbx+i], left, m)
						vw.topModes[4*mbx+i] = m
						left = m
					}
					vw.leftModes[j] = left
				}
			}
			switch r.Intn(4) { // chroma mode
			case 0:
				fp.put(false, 142)
			case 1:
				fp.put(true, 142)
				fp.put(false, 114)
			case 2:
				fp.put(true, 142)
				fp.put(true, 114)
				fp.put(false, 183)
			default:
				fp.put(true, 142)
				fp.put(true, 114)
				fp.put(true, 183)
			}
			if skip {
				if i16 {
					vw.leftNzY2, vw.topNzY2[mbx] = 0, 0
				}
				for i := 0; i < 4; i++ {
					vw.topNzY[4*mbx+i], vw.leftNzY[i] = 0, 0
				}
				for i := 0; i < 2; i++ {
					vw.topNzU[2*mbx+i], vw.leftNzU[i], vw.topNzV[2*mbx+i], vw.leftNzV[i] = 0, 0, 0, 0
				}
				continue
			}
			plane, first := 3, 0
			if i16 {
				lv := vw.genLevels(0, density+10)
				nz := vw.putCoeffs(tp, 1, vw.leftNzY2+vw.topNzY2[mbx], 0, &lv)
				vw.leftNzY2, vw.topNzY2[mbx] = nz, nz
				plane, first = 0, 1
			}
			for y := 0; y < 4; y++ {
				for x := 0; x < 4; x++ {
					lv := vw.genLevels(first, density)
					nz := vw.putCoeffs(tp, plane, vw.leftNzY[y]+vw.topNzY[4*mbx+x], first, &lv)
					vw.leftNzY[y], vw.topNzY[4*mbx+x] = nz, nz
				}
			}
			for ch := 0; ch < 2; ch++ {
				top, left := vw.topNzU, &vw.leftNzU
				if ch == 1 {
					top, left = vw.topNzV, &vw.leftNzV
				}
				for y := 0; y < 2; y++ {
					for x := 0; x < 2; x++ {
						lv := vw.genLevels(0, density)
						nz := vw.putCoeffs(tp, 2, left[y]+top[2*mbx+x], 0, &lv)
						left[y], top[2*mbx+x] = nz, nz
					}
				}
			}
		}
	}
	first := fp.finish()
	var partBytes [][]byte
	for _, p := range vw.parts {
		b := p.finish()
		// a decoder may look a couple of bytes ahead
		b = append(b, 0, 0)
		partBytes = append(partBytes, b)
	}
	// -- damage variants --
	dmg := "none"
	if !c.NoDamage && r.Pct(25) {
		dmg = r.PickS("partsize", "firstsize", "truncate", "dims", "tag", "lastpart-empty")
	}
	firstLen := len(first)
	sizes := make([]int, nParts)
	for i, b := range partBytes {
		sizes[i] = len(b)
	}
	switch dmg {
	case "partsize":
		if nParts > 1 {
			sizes[r.Intn(nParts-1)] = r.Pick(0, 1, 0xffffff, sizes[0]+1, 1<<20)
		}
	case "firstsize":
		firstLen = r.Pick(0, 1, len(first)-1, len(first)+1, len(first)+1000, 0x7ffff)
		if firstLen < 0 {
			firstLen = 0
		}
	case "lastpart-empty":
		partBytes[nParts-1] = nil
	}
	hw, hh := W, H
	if dmg == "dims" {
		hw, hh = r.Pick(W+16, W*2, 16383, 1, W), r.Pick(H+16, H*2, 16383, 1)
	}
	tag := uint32(0) | uint32(r.Pick(0, 0, 1, 2, 3))<<1 | 1<<4 | uint32(firstLen&0x7ffff)<<5
	if dmg == "tag" {
		tag = uint32(r.Pick(1, 0))&1 | uint32(r.Intn(8))<<1 | uint32(r.Intn(2))<<4 | uint32(firstLen&0x7ffff)<<5
	}
	var bs []byte
	bs = append(bs, byte(tag), byte(tag>>8), byte(tag>>16), 0x9d, 0x01, 0x2a)
	bs = append(bs, byte(hw), byte(hw>>8)&0x3f|byte(r.Pick(0, 0, 0, 1, 2, 3))<<6, byte(hh), byte(hh>>8)&0x3f|byte(r.Pick(0, 0, 0, 1, 3))<<6)
	bs = append(bs, first...)
	for i := 0; i < nParts-1; i++ {
		bs = append(bs, byte(sizes[i]), byte(sizes[i]>>8), byte(sizes[i]>>16))
	}
	for _, b := range partBytes {
		bs = append(bs, b...)
	}
	if dmg == "truncate" {
		bs = bs[:r.Intn(len(bs)+1)]
	}
	out := make([]byte, 0, 20+len(bs)+1)
	out = append(out, "RIFF"...)
	out = binary.LittleEndian.AppendUint32(out, uint32(4+8+len(bs)+len(bs)&1))
	out = append(out, "WEBPVP8 "...)
	out = binary.LittleEndian.AppendUint32(out, uint32(len(bs)))
	out = append(out, bs...)
	if len(bs)&1 == 1 {
		out = append(out, 0)
	}
	return out
}

// vp8CraftSelfTest (development aid, not a registered check): crafted streams without
// damage must be accepted by the reference decoder and by the package, with the same
// samples. It validates the writer; a disagreement on a stream both accept would be a
// C04-type observation (not a claimed property).
func vp8CraftSelfTest(args []string) int {
	n, seed, maxLevel := 2000, uint64(1), 0
	if len(args) > 0 {
		fmt.Sscan(args[0], &n)
	}
	if len(args) > 1 {
		fmt.Sscan(args[1], &seed)
	}
	if len(args) > 2 {
		fmt.Sscan(args[2], &maxLevel)
	}
	warmUp()
	var refRej, pkgRej, both, diff, bigDiff int
	for i := 0; i < n; i++ {
		r := NewRNG(DeriveN(seed, "vp8craft", i))
		file := CraftVP8(r, VP8Craft{NoDamage: true, MaxLevel: maxLevel})
		payload := file[20:]
		sz := int(binary.LittleEndian.Uint32(file[16:]))
		payload = payload[:sz]
		ref, rerr := func() (img *image.YCbCr, err error) {
			defer func() {
				if p := recover(); p != nil {
					err = fmt.Errorf("panic %v", p)
				}
			}()
			return refDecodeVP8(payload, false)
		}()
		var got image.Image
		var perr error
		x := &X{Stats: NewStats(), Quiet: true}
		x.Solo(1, func() { got, perr = webp.Decode(bytes.NewReader(file)) })
		switch {
		case rerr != nil && perr != nil:
			both++
			if both <= 3 {
				fmt.Printf("case %d: both reject: ref %v / pkg %v\n", i, rerr, perr)
			}
		case rerr != nil:
			refRej++
			if refRej <= 3 {
				fmt.Printf("case %d: reference rejects: %v\n", i, rerr)
			}
		case perr != nil:
			pkgRej++
			if pkgRej <= 5 {
				fmt.Printf("case %d: package rejects: %v (%d bytes)\n", i, perr, len(file))
			}
		default:
			y, ok := got.(*image.YCbCr)
			if !ok {
				fmt.Printf("case %d: package returned %T\n", i, got)
				diff++
				continue
			}
			if d := sameYCbCr(ref, y); d != "" {
				diff++
				if dir := os.Getenv("CRAFT_DUMP"); dir != "" {
					os.WriteFile(fmt.Sprintf("%s/case%d.webp", dir, i), file, 0o644)
					os.WriteFile(fmt.Sprintf("%s/case%d.txt", dir, i), []byte(d+" (x/image vs package)\n"), 0o644)
				}
				if diff <= 40 {
					fmt.Printf("case %d: samples differ: %s (%dx%d, %d bytes) %s\n", i, d, y.Rect.Dx(), y.Rect.Dy(), len(file), lastCraftDesc)
				}
			}
		}
	}
	_ = bigDiff
	fmt.Printf("crafted=%d accepted-by-both=%d differ=%d ref-rejects=%d pkg-rejects=%d both-reject=%d\n", n, n-refRej-pkgRej-both, diff, refRej, pkgRej, both)
	return 0
}
