package verifh

import (
	"bytes"
	"encoding/binary"
	"encoding/json"
	"fmt"
	"image"
	"os"
	"runtime"
	"syscall"
	"time"

	webp "github.com/deepteams/webp"
	"github.com/deepteams/webp/animation"
	"github.com/deepteams/webp/internal/vsim"
	"github.com/deepteams/webp/mux"
)

// C05 — corrupted or hostile stored bytes never crash, hang or exhaust a reader.
// The simulated disk holds valid files (stills, animation-encoder output, muxer
// output); crash-style faults are applied between write and read; every decoding
// entry point is run on the result (parallel frame decoding under the scheduler).

type CorruptOp struct {
	Kind string `json:"kind"` // bitflip byte zero truncate dup drop swap splice length append
	Pos  int    `json:"pos"`  // per-mille position (0..999) or absolute when Abs
	Abs  bool   `json:"abs,omitempty"`
	Len  int    `json:"len,omitempty"`
	Val  uint32 `json:"val,omitempty"`
}

type C05Params struct {
	Sched  SchedSpec   `json:"sched"`
	Base   string      `json:"base"` // still anim mux random header
	Still  *Op         `json:"still,omitempty"`
	Anim   *AnimSpec   `json:"anim,omitempty"`
	Mux    *MuxSpec    `json:"mux,omitempty"`
	Other  *Op         `json:"other,omitempty"` // second stored file for splices
	Seed   uint64      `json:"seed"`
	Faults []CorruptOp `json:"faults"`
	// Raw overrides everything: the exact hostile bytes (hex-free: stored as ints)
	Raw []int `json:"raw,omitempty"`
	// BodyFaults: positions are not biased towards headers (faults land in the
	// entropy-coded body)
	BodyFaults bool `json:"body_faults,omitempty"`
	// VP8: steering of a hand-crafted VP8 key frame (base "craftvp8")
	VP8 *VP8Craft `json:"vp8,omitempty"`
	// attempt counts repetitions after the time budget was exceeded (not part of a replay)
	attempt int
}

type propC05 struct{}

func (propC05) ID() string     { return "C05" }
func (propC05) Level() string  { return "exploration" }
func (propC05) NewParams() any { return &C05Params{} }
func (propC05) Plan(tier string) (int, int) {
	if tier == "thorough" {
		return 3000000, 4000
	}
	return 120000, 150
}

var corruptKinds = []string{"bitflip", "bitflip", "byte", "byte", "zero", "truncate", "dup", "drop", "swap", "splice", "length", "length", "length", "append"}
var sizeBoundary = []uint32{0, 1, 2, 3, 4, 5, 7, 8, 9, 10, 11, 12, 16, 0x7fffffff, 0x80000000, 0xfffffff6, 0xfffffff7, 0xfffffff8, 0xfffffffe, 0xffffffff}

func (propC05) Gen(seed uint64, tier string, idx int) any {
	r := NewRNG(seed)
	p := &C05Params{Seed: r.Next()}
	p.Sched = GenSched(r, 200, 1)
	switch v := r.Intn(100); {
	case v < 40:
		p.Base = "still"
		op := GenStillOp(r, 1, 40, false)
		op.Kind = "enc"
		if r.Pct(12) {
			// a narrow lossless picture with repeats (backward references with 2-D
			// distance codes near the row ends); faults go into the entropy-coded body
			op.Img = GenImgSpec(r, 1, 40, 1)
			op.Img.W = r.Range(1, 7)
			op.Img.Family = r.PickS("pal", "text", "flat", "hgrad")
			op.Img.Runs, op.Img.Colors, op.Img.Type = true, r.Range(2, 6), "nrgba"
			op.Opt = GenLosslessOpts(r, 0)
			p.BodyFaults = true
		}
		if r.Pct(1) {
			// a large picture of statistically different regions (many prefix-code groups,
			// many token pages)
			op.Img.Family, op.Img.Type = "regions", "nrgba"
			op.Img.W, op.Img.H = 16*r.Range(8, 32), 16*r.Range(8, 32)
			if op.Opt.Method > 4 {
				op.Opt.Method = 4
			}
		}
		p.Still = &op
	case v < 62:
		p.Base = "anim"
		a := GenAnimSpec(r, 24, 8, r.Bool(), 50)
		a.AllowMixed = r.Pct(30)
		p.Anim = &a
	case v < 80:
		p.Base = "mux"
		m := GenMuxSpec(r, 12)
		p.Mux = &m
	case v < 86:
		p.Base = "random"
	case v < 90:
		p.Base = "crafted"
	case v < 95:
		p.Base = "craftvp8"
	default:
		p.Base = "header"
	}
	if r.Pct(30) {
		op := GenStillOp(r, 1, 24, false)
		op.Kind = "enc"
		p.Other = &op
	}
	nf := r.Range(1, 4)
	if r.Pct(12) {
		nf = 0 // the stored file as it is: every entry point must also survive valid input
	}
	if p.BodyFaults {
		nf = r.Range(1, 3)
	}
	for i := 0; i < nf; i++ {
		c := CorruptOp{Kind: corruptKinds[r.Intn(len(corruptKinds))], Pos: r.Intn(1000), Len: 1 + r.Intn(24), Val: uint32(r.Next())}
		if p.BodyFaults {
			c.Kind = r.PickS("bitflip", "bitflip", "byte")
			c.Pos = 250 + r.Intn(750) // past the container and bitstream headers
		}
		if c.Kind == "length" {
			c.Val = sizeBoundary[r.Intn(len(sizeBoundary))]
			if r.Pct(30) {
				c.Val = uint32(r.Intn(64))
			}
		}
		p.Faults = append(p.Faults, c)
	}
	return p
}

func (propC05) Shrink(pp any) []any {
	p := pp.(*C05Params)
	var out []any
	if len(p.Faults) > 1 {
		for i := range p.Faults {
			q := *p
			q.Faults = append(append([]CorruptOp{}, p.Faults[:i]...), p.Faults[i+1:]...)
			out = append(out, &q)
		}
	}
	if p.Sched.Policy != vsim.PolCanonical {
		q := *p
		q.Sched.Policy, q.Sched.Procs, q.Sched.PoolHitPct = vsim.PolCanonical, 1, 0
		out = append(out, &q)
	}
	return out
}

// interesting offsets of a valid file: size fields, chunk headers, bitstream headers
func interestingOffsets(data []byte) []int {
	out := []int{4, 5, 6, 7, 12, 16, 17, 18, 19}
	wf, err := Walk(data)
	if err != nil {
		return out
	}
	add := func(off, n int) {
		for i := 0; i < n; i++ {
			out = append(out, off+i)
		}
	}
	for _, c := range wf.Chunks {
		add(c.Off, 8)
		switch c.FourCC {
		case "VP8X":
			add(c.Off+8, 10)
		case "VP8 ":
			add(c.Off+8, 16)
		case "VP8L":
			add(c.Off+8, 12)
		case "ALPH":
			add(c.Off+8, 4)
		case "ANIM":
			add(c.Off+8, 6)
		case "ANMF":
			add(c.Off+8, 16+8+12)
		}
	}
	return out
}

// chunkSizeFields returns the offsets of 32-bit size fields (RIFF, chunks, sub-chunks).
func chunkSizeFields(data []byte) []int {
	out := []int{4}
	wf, err := Walk(data)
	if err != nil {
		return out
	}
	for _, c := range wf.Chunks {
		out = append(out, c.Off+4)
		if c.FourCC == "ANMF" && c.Size >= 16+8 {
			// sub-chunks
			p := c.Off + 8 + 16
			end := c.Off + 8 + c.Size
			for p+8 <= end && p+8 <= len(data) {
				out = append(out, p+4)
				sz := int(binary.LittleEndian.Uint32(data[p+4:]))
				p += 8 + sz + sz&1
			}
		}
	}
	return out
}

func applyCorruption(data []byte, other []byte, faults []CorruptOp, seed uint64, bodyOnly bool) []byte {
	r := NewRNG(seed)
	d := append([]byte{}, data...)
	for _, c := range faults {
		if len(d) == 0 {
			d = append(d, byte(c.Val))
			continue
		}
		pos := c.Pos * len(d) / 1000
		if c.Abs {
			pos = c.Pos
		} else if !bodyOnly && r.Pct(55) {
			if io := interestingOffsets(data); len(io) > 0 {
				pos = io[r.Intn(len(io))]
			}
		}
		if pos >= len(d) {
			pos = len(d) - 1
		}
		if pos < 0 {
			pos = 0
		}
		n := c.Len
		if pos+n > len(d) {
			n = len(d) - pos
		}
		switch c.Kind {
		case "bitflip":
			d[pos] ^= 1 << (c.Val % 8)
		case "byte":
			d[pos] = byte(c.Val)
		case "zero":
			for i := pos; i < pos+n; i++ {
				d[i] = 0
			}
		case "truncate":
			d = d[:pos]
		case "dup":
			blk := append([]byte{}, d[pos:pos+n]...)
			d = append(d[:pos+n], append(blk, d[pos+n:]...)...)
		case "drop":
			d = append(d[:pos], d[pos+n:]...)
		case "swap":
			q := int(c.Val) % len(d)
			for i := 0; i < n && pos+i < len(d) && q+i < len(d); i++ {
				d[pos+i], d[q+i] = d[q+i], d[pos+i]
			}
		case "splice":
			if len(other) > 0 {
				q := int(c.Val) % len(other)
				m := n * 4
				if q+m > len(other) {
					m = len(other) - q
				}
				d = append(d[:pos], append(append([]byte{}, other[q:q+m]...), d[pos:]...)...)
			}
		case "length":
			fields := chunkSizeFields(data)
			off := fields[int(c.Pos)%len(fields)]
			if off+4 <= len(d) {
				v := c.Val
				if c.Len%3 == 0 { // relative tampering: size +-1, +-2
					v = binary.LittleEndian.Uint32(d[off:]) + uint32(int32(c.Len%5-2))
				}
				binary.LittleEndian.PutUint32(d[off:], v)
			}
		case "append":
			for i := 0; i < c.Len; i++ {
				d = append(d, byte(r.Next()))
			}
		}
	}
	return d
}

func hostileHeader(r *RNG) []byte {
	n := r.Range(12, 40)
	d := make([]byte, n)
	for i := range d {
		d[i] = byte(r.Next())
	}
	copy(d, "RIFF")
	binary.LittleEndian.PutUint32(d[4:], sizeBoundary[r.Intn(len(sizeBoundary))])
	if r.Pct(30) {
		binary.LittleEndian.PutUint32(d[4:], uint32(n-8+r.Range(-3, 3)))
	}
	copy(d[8:], "WEBP")
	if n >= 20 {
		copy(d[12:], r.PickS("VP8 ", "VP8L", "VP8X", "ALPH", "ANIM", "ANMF", "ICCP", "EXIF", "XMP "))
		binary.LittleEndian.PutUint32(d[16:], sizeBoundary[r.Intn(len(sizeBoundary))])
		if r.Pct(40) {
			binary.LittleEndian.PutUint32(d[16:], uint32(n-20+r.Range(-2, 2)))
		}
	}
	if n >= 30 && string(d[12:16]) == "VP8X" && r.Pct(50) {
		// boundary canvas values
		v := []uint32{0, 1, 0x3fff, 0x4000, 0xffff, 0xfffffe, 0xffffff}
		c := v[r.Intn(len(v))]
		d[24], d[25], d[26] = byte(c), byte(c>>8), byte(c>>16)
		c = v[r.Intn(len(v))]
		d[27], d[28], d[29] = byte(c), byte(c>>8), byte(c>>16)
	}
	return d
}

// declaredArea scans (leniently) the largest pixel area any header in data declares.
func declaredArea(data []byte) (uint64, uint64) {
	var best, sum uint64
	upd := func(w, h int) {
		if w > 0 && h > 0 {
			a := uint64(w) * uint64(h)
			sum += a
			if a > best {
				best = a
			}
		}
	}
	var scan func(b []byte, depth int)
	scan = func(b []byte, depth int) {
		p := 0
		for p+8 <= len(b) && depth < 3 {
			id := string(b[p : p+4])
			sz := int(binary.LittleEndian.Uint32(b[p+4:]))
			pl := b[p+8:]
			if sz >= 0 && sz < len(pl) {
				pl = pl[:sz]
			}
			switch id {
			case "VP8X":
				if len(pl) >= 10 {
					upd(le24(pl[4:])+1, le24(pl[7:])+1)
				}
			case "VP8 ":
				if len(pl) >= 10 {
					upd(int(binary.LittleEndian.Uint16(pl[6:]))&0x3fff, int(binary.LittleEndian.Uint16(pl[8:]))&0x3fff)
				}
			case "VP8L":
				if len(pl) >= 5 {
					bits := binary.LittleEndian.Uint32(pl[1:])
					upd(int(bits&0x3fff)+1, int((bits>>14)&0x3fff)+1)
				}
			case "ANMF":
				if len(pl) >= 16 {
					upd(le24(pl[6:])+1, le24(pl[9:])+1)
					scan(pl[16:], depth+1)
				}
			}
			if sz < 0 || sz > len(b) {
				break
			}
			p += 8 + sz + sz&1
		}
	}
	if len(data) >= 12 {
		scan(data[12:], 0)
	}
	// bitstream headers can also appear at any offset after corruption: be generous
	for i := 0; i+10 <= len(data); i++ {
		if data[i] == 0x9d && i+7 <= len(data)-2 && data[i+1] == 0x01 && data[i+2] == 0x2a {
			upd(int(binary.LittleEndian.Uint16(data[i+3:]))&0x3fff, int(binary.LittleEndian.Uint16(data[i+5:]))&0x3fff)
		}
		if data[i] == 0x2f && i+5 <= len(data) {
			bits := binary.LittleEndian.Uint32(data[i+1:])
			upd(int(bits&0x3fff)+1, int((bits>>14)&0x3fff)+1)
		}
	}
	return best, sum
}

func wellFormed(img image.Image) string {
	if img == nil {
		return "nil image with nil error"
	}
	b := img.Bounds()
	w, h := b.Dx(), b.Dy()
	if w <= 0 || h <= 0 {
		return fmt.Sprintf("non-positive bounds %v", b)
	}
	switch m := img.(type) {
	case *image.NRGBA:
		if m.Stride < 4*w || len(m.Pix) < (h-1)*m.Stride+4*w {
			return fmt.Sprintf("NRGBA %v stride %d len(Pix) %d too small", b, m.Stride, len(m.Pix))
		}
	case *image.YCbCr:
		cw, chh := (w+1)/2, (h+1)/2
		if m.YStride < w || len(m.Y) < (h-1)*m.YStride+w || m.CStride < cw || len(m.Cb) < (chh-1)*m.CStride+cw || len(m.Cr) < (chh-1)*m.CStride+cw {
			return fmt.Sprintf("YCbCr %v strides %d/%d lens %d/%d/%d too small", b, m.YStride, m.CStride, len(m.Y), len(m.Cb), len(m.Cr))
		}
	}
	return ""
}

// MuxFileFor assembles a muxer history alone; must be called outside any world.
func MuxFileFor(m MuxSpec) []byte {
	blobs := make([]*frameBlob, len(m.Srcs))
	for i, s := range m.Srcs {
		blobs[i] = blobFor(s)
	}
	var out []byte
	x := &X{Stats: NewStats(), Quiet: true}
	x.Solo(1, func() {
		mm := mux.NewMuxer()
		var md muxModel
		applyCalls(m, blobs, mm, &md, nil)
		var buf bytes.Buffer
		if mm.Assemble(&buf) == nil {
			out = buf.Bytes()
		}
	})
	return out
}

const c05BaseBudget = 8 << 20

// c05Bytes reconstructs the hostile bytes of a run (outside any world).
func c05Bytes(p *C05Params) []byte {
	r := NewRNG(p.Seed)
	var base, other []byte
	if p.Other != nil {
		other = FileFor(p.Other.Img, p.Other.Opt)
	}
	switch {
	case p.Raw != nil:
		d := make([]byte, len(p.Raw))
		for i, v := range p.Raw {
			d[i] = byte(v)
		}
		return d
	case p.Base == "still":
		base = FileFor(p.Still.Img, p.Still.Opt)
	case p.Base == "anim":
		base = AnimFileFor(*p.Anim)
	case p.Base == "mux":
		base = MuxFileFor(*p.Mux)
	case p.Base == "random":
		d := make([]byte, r.Range(0, 300))
		for i := range d {
			d[i] = byte(r.Next())
		}
		if r.Pct(50) && len(d) >= 12 {
			copy(d, "RIFF")
			copy(d[8:], "WEBP")
		}
		return d
	case p.Base == "header":
		return hostileHeader(r)
	case p.Base == "crafted":
		return craftVP8L(r)
	case p.Base == "craftvp8":
		var c VP8Craft
		if p.VP8 != nil {
			c = *p.VP8
		}
		return CraftVP8(r, c)
	}
	if base == nil {
		return nil
	}
	return applyCorruption(base, other, p.Faults, p.Seed, p.BodyFaults)
}

func c05Dump(args []string) int {
	b, err := os.ReadFile(args[0])
	if err != nil {
		return 2
	}
	var rf ReplayFile
	json.Unmarshal(b, &rf)
	var p C05Params
	json.Unmarshal(rf.Params, &p)
	warmUp()
	d := c05Bytes(&p)
	os.Stdout.Write(d)
	return 0
}

func (propC05) Execute(pp any, x *X) *Violation {
	p := pp.(*C05Params)
	data := c05Bytes(p)
	if data == nil {
		x.Count("base_file_unavailable", 1)
		return nil
	}
	if p.Raw == nil && (p.Base == "still" || p.Base == "anim" || p.Base == "mux") {
		for _, f := range p.Faults {
			x.Fault("disk_" + f.Kind)
		}
	} else {
		x.Fault("hostile_" + p.Base)
	}
	area, areaSum := declaredArea(data)
	budget := uint64(c05BaseBudget) + 64*uint64(len(data)) + 64*area
	big := area > 1<<22
	if big {
		x.Count("inputs_declaring_over_4Mpx_header_entry_points_only", 1)
	}
	var viol *Violation
	entry := ""
	var worst uint64
	start := processCPU()
	measureB := func(name string, bud uint64, f func() string) {
		if viol != nil {
			return
		}
		entry = name
		var m0, m1 runtime.MemStats
		runtime.ReadMemStats(&m0)
		msg := f()
		runtime.ReadMemStats(&m1)
		used := m1.TotalAlloc - m0.TotalAlloc
		if used > worst {
			worst = used
		}
		if msg != "" {
			sig := "malformed-result:" + name
			if len(msg) > 8 && msg[:8] == "history:" {
				sig = "outcome-depends-on-history:" + name
			}
			viol = &Violation{Prop: "C05", Sig: sig, Detail: fmt.Sprintf("%s on %d hostile bytes: %s", name, len(data), msg)}
			return
		}
		if used > bud {
			viol = &Violation{Prop: "C05", Sig: "memory:" + name, Detail: fmt.Sprintf("%s allocated %d bytes on a %d-byte input whose headers declare at most %d pixels per picture (%d summed over all frames); budget for this call %d", name, used, len(data), area, areaSum, bud)}
		}
	}
	measure := func(name string, f func() string) { measureB(name, budget, f) }
	sumBudget := uint64(c05BaseBudget) + 64*uint64(len(data)) + 64*areaSum
	w := x.Explore(p.Sched.Config(), func() {
		measure("DecodeConfig", func() string {
			c, err := webp.DecodeConfig(bytes.NewReader(data))
			if err == nil && (c.Width <= 0 || c.Height <= 0) {
				return fmt.Sprintf("config %dx%d", c.Width, c.Height)
			}
			return ""
		})
		measure("GetFeatures", func() string {
			f, err := webp.GetFeatures(bytes.NewReader(data))
			if err == nil && (f == nil || f.Width <= 0 || f.Height <= 0) {
				return fmt.Sprintf("features %+v", f)
			}
			return ""
		})
		var dmx *mux.Demuxer
		measure("NewDemuxer", func() string {
			d, err := mux.NewDemuxer(data)
			if err == nil {
				dmx = d
				n := d.NumFrames()
				for i := -1; i <= n; i++ {
					fi, err := d.Frame(i)
					if (i < 0 || i >= n) && err == nil {
						return fmt.Sprintf("Frame(%d) of %d succeeded", i, n)
					}
					_ = fi
				}
				d.GetChunk(mux.FourCCICCP)
				d.GetChunk(mux.FourCCEXIF)
				d.GetChunk(mux.FourCCXMP)
				it := d.NewFrameIterator()
				for k := 0; it.HasNext() && k <= n; k++ {
					it.Next()
				}
				d.GetFeatures()
				d.LoopCount()
			}
			return ""
		})
		_ = dmx
		if big {
			return
		}
		measure("Decode", func() string {
			img, err := webp.Decode(NewSimReader(data, ReadPlan{Seed: p.Seed, Mode: "mixed", ErrAt: -1}))
			if err == nil {
				x.Count("decode_accepted_base_"+p.Base, 1)
				return wellFormed(img)
			}
			x.Count("decode_rejected_base_"+p.Base, 1)
			return ""
		})
		measure("image.Decode", func() string {
			img, _, err := image.Decode(bytes.NewReader(data))
			if err == nil {
				return wellFormed(img)
			}
			return ""
		})
		var anim, a2 *animation.Animation
		measure("animation.Decode", func() string {
			a, err := animation.Decode(bytes.NewReader(data))
			if err == nil {
				anim = a
				a2, _ = animation.DecodeBytes(data)
			}
			return ""
		})
		if anim == nil || uint64(anim.CanvasWidth)*uint64(anim.CanvasHeight) > 1<<22 {
			return
		}
		var e1 error
		measureB("DecodeFramesParallel", sumBudget, func() string {
			e1 = anim.DecodeFramesParallel()
			return ""
		})
		if a2 != nil {
			measureB("DecodeFrames", sumBudget, func() string {
				e2 := a2.DecodeFrames()
				if (e1 == nil) != (e2 == nil) {
					return fmt.Sprintf("history: decoding the same frames a second time gives a different outcome: DecodeFramesParallel err=%v, then DecodeFrames err=%v", e1, e2)
				}
				return ""
			})
		}
		if viol != nil {
			return
		}
		// a caller may go on to canvas reconstruction after a reported frame-decoding
		// error: NextFrame must then fail cleanly (ErrNilImage), never panic
		var dec *animation.AnimDecoder
		measure("NewAnimDecoder", func() string {
			d, err := animation.NewAnimDecoder(anim)
			if err == nil {
				dec = d
			}
			return ""
		})
		if dec == nil {
			return
		}
		for pass := 0; pass < 2 && viol == nil; pass++ {
			for k := 0; dec.HasNext() && k < 20000 && viol == nil; k++ {
				stop := false
				measure("NextFrame", func() string {
					c, _, err := dec.NextFrame()
					if err != nil {
						stop = true
						return ""
					}
					return wellFormed(c)
				})
				if stop {
					break
				}
			}
			dec.Reset()
		}
	})
	// CPU time of this process, not wall-clock time: one simulated task runs at a time, so
	// this is the work done on the input (plus the collector), whatever else the machine does
	el := processCPU() - start
	x.Case(hashString(string(data)), true)
	x.Count("entry_point_batches", 1)
	x.Count("base_"+p.Base, 1)
	x.Sample(map[string]any{"base": p.Base, "faults": p.Faults, "bytes": len(data), "declared_px": area, "max_alloc_bytes_in_a_call": worst})
	if v := x.WorldViolation("C05", w); v != nil {
		v.Detail = fmt.Sprintf("entry point %s on %d hostile bytes (base %s, faults %+v): %s", entry, len(data), p.Base, p.Faults, v.Detail)
		return v
	}
	if x.Inconclusive != "" {
		return nil
	}
	if el > 20*time.Second+time.Duration(2*(uint64(len(data))+area))*time.Microsecond {
		// Time measured on a shared machine is noisy (page faults of large canvases are
		// expensive when many processes run): an input is over budget only if it is over
		// budget three times in a row. Work that is out of proportion repeats every time.
		if p.attempt < 2 {
			q := *p
			q.attempt++
			x.Count("time_budget_exceeded_once_repeating", 1)
			return propC05{}.Execute(&q, x)
		}
		return &Violation{Prop: "C05", Sig: "cpu:" + entry, Detail: fmt.Sprintf("entry points used %v of CPU time on %d bytes declaring %d px", el, len(data), area)}
	}
	return viol
}

func (propC05) Describe() PropDoc {
	return PropDoc{
		Rule: "one run = one stored file (a valid still of any kind, an animation from the animation encoder, a muxer output with 1-12 frames, random bytes, a 12-40 byte header with boundary values in every size field, a narrow lossless picture damaged in its entropy-coded body, or a hand-crafted VP8L stream from the harness's own bit writer: 1-3 symbol prefix codes, arbitrary 2-D distance codes and lengths, colour-cache symbols, optional transforms and entropy image; about a quarter of those are valid) hit by 1-4 crash-style storage faults (bit flip, byte overwrite, zeroed range, truncation, duplicated / dropped / swapped block, splice from another stored file, size-field tampering with boundary values, appended garbage; 55 % of positions biased to size fields and chunk / bitstream headers), then EVERY entry point on the result: DecodeConfig, GetFeatures, mux.NewDemuxer + Frame(i) incl. out-of-range + GetChunk + iterator, Decode (through a piecewise reader), image.Decode, animation.Decode + DecodeFramesParallel (under the drawn schedule) + DecodeFrames + NewAnimDecoder + NextFrame to the end twice with Reset. distinct = distinct corrupted byte strings (non-trivial by construction).",
		Assumptions: []string{
			"memory: runtime.MemStats.TotalAlloc delta per entry point in a single-runner process, budget 8 MB + 64*len(input) + 64*(largest pixel area any header in the mutated bytes declares)",
			"inputs declaring more than 2^22 pixels run the header-level entry points only (counted); a hang is caught by the per-run watchdog of the worker and confirmed in a fresh process",
			"sampling over corruptions: a clean batch is evidence, not proof",
		},
		Real:      []string{"all parsers/decoders/compositor of deepteams/webp, rewritten by simgen"},
		Simulated: []string{"the byte store between writer and reader (crash-style corruption)", "io.Reader delivery", "schedule of parallel frame decoding"},
		Reference: []string{"no reference result is needed: the oracle is no panic / no deadlock / bounded resources / well-formed images"},
		MustReach: []string{"disk_bitflip", "disk_length", "disk_truncate", "disk_splice", "hostile_header", "hostile_random", "hostile_craftvp8", "hostile_crafted", "base_anim", "base_mux", "base_still"},
	}
}

// processCPU returns the user-mode CPU time this process has consumed. System time is left
// out on purpose: in this kind of VM the page faults of freshly allocated canvases cost
// seconds of system time as soon as several processes allocate at once, which says nothing
// about the code under test, while work that is out of proportion burns user time.
func processCPU() time.Duration {
	var ru syscall.Rusage
	if err := syscall.Getrusage(syscall.RUSAGE_SELF, &ru); err != nil {
		return 0
	}
	return time.Duration(ru.Utime.Nano())
}
