package verifh

// AnimOp: placeholder until the animation workloads are wired.
type AnimOp struct {
	Seed uint64 `json:"seed"`
}

func GenAnimDecodeOp(r *RNG) AnimOp { return AnimOp{Seed: r.Next()} }

func execC10D(p *C10Params, x *X) *Violation { return nil }

func warmUpExtra() {}
