package verifh

import (
	"bytes"
	"errors"
	"fmt"
	"image"
	"image/color"
	"time"

	"github.com/deepteams/webp/animation"
)

// AnimSpec is a seeded history of AddFrame calls on the animation encoder.
type AnimSpec struct {
	W, H       int      `json:"-"`
	CW         int      `json:"w"`
	CH         int      `json:"h"`
	Seed       uint64   `json:"seed"`
	Alpha      string   `json:"alpha"` // opaque binary graded
	Frames     []AFrame `json:"frames"`
	Lossless   bool     `json:"lossless"`
	AllowMixed bool     `json:"mixed,omitempty"`
	Quality    int      `json:"q"`
	Kmin       int      `json:"kmin"`
	Kmax       int      `json:"kmax"`
	Loop       int      `json:"loop"`
	Bg         uint32   `json:"bg,omitempty"`
	ICCLen     int      `json:"icc"`
	EXIFLen    int      `json:"exif"`
	XMPLen     int      `json:"xmp"`
	// FailCalls: ordinal numbers (0-based, per history) of *tolerated* frame-codec
	// calls that the fault injector makes fail: alternate-codec calls in mixed mode
	// and dispose-background candidate calls.
	FailAlt bool `json:"fail_alt,omitempty"`
	FailBG  bool `json:"fail_bg,omitempty"`
	// Reuse: the simulated caller draws every canvas-sized frame into one buffer of its
	// own (a tight zero-origin *image.NRGBA) and scribbles over it as soon as AddFrame has
	// returned -- the usual render loop. The encoder must have taken what it needs.
	Reuse bool `json:"reuse_buffer,omitempty"`
	// ReuseRGBA: that buffer is an *image.RGBA whenever the frame's alpha is binary (so
	// that premultiplied and straight pixels are the same thing)
	ReuseRGBA bool `json:"reuse_rgba,omitempty"`
}

type AFrame struct {
	Mut  string `json:"mut"` // first same pixel rect big alphaonly semi small
	Dur  int    `json:"dur_ms"`
	Seed uint64 `json:"seed"`
	// Type: how the picture is handed to AddFrame: "" / nrgba (origin 0), sub (NRGBA view
	// with non-zero origin and larger stride), rgba / rgbasub (premultiplied storage; only
	// used when every alpha is 0 or 255), nrgba64
	Type string `json:"type,omitempty"`
}

func (a AnimSpec) String() string {
	muts := ""
	for _, f := range a.Frames {
		muts += fmt.Sprintf("%s/%d ", f.Mut, f.Dur)
	}
	return fmt.Sprintf("anim %dx%d %s lossless=%v mixed=%v q%d kmin%d kmax%d loop%d frames[%s]", a.CW, a.CH, a.Alpha, a.Lossless, a.AllowMixed, a.Quality, a.Kmin, a.Kmax, a.Loop, muts)
}

var animDurations = []int{0, 1, 40, 40, 100, 1 << 24 - 2, 1<<24 - 1}
var animMuts = []string{"same", "pixel", "rect", "rect", "big", "most", "alphaonly", "semi", "small", "corners", "erase", "toggle", "toggle"}

func GenAnimSpec(r *RNG, maxSide, maxFrames int, lossless bool, alphaPct int) AnimSpec {
	a := AnimSpec{Seed: r.Next(), Lossless: lossless, ICCLen: -1, EXIFLen: -1, XMPLen: -1}
	a.CW, a.CH = genSide(r, 1, maxSide), genSide(r, 1, maxSide)
	a.Alpha = "opaque"
	if r.Pct(alphaPct) {
		a.Alpha = r.PickS("binary", "graded", "graded")
	}
	a.Quality = r.Pick(0, 30, 50, 75, 90, 100)
	switch r.Intn(4) {
	case 0:
		a.Kmin, a.Kmax = 0, 0
	case 1:
		a.Kmin, a.Kmax = 0, 1
	case 2:
		a.Kmin, a.Kmax = r.Pick(0, 1, 2), r.Pick(2, 3, 5)
	default:
		a.Kmin, a.Kmax = r.Pick(0, 3, 9), r.Pick(100, 1<<20)
	}
	a.Loop = r.Pick(0, 0, 1, 3, 65535)
	if r.Pct(30) {
		a.Bg = uint32(r.Next())
	}
	if r.Pct(15) {
		a.ICCLen, a.EXIFLen, a.XMPLen = r.Pick(-1, 0, 3, 8), r.Pick(-1, 1, 4), r.Pick(-1, 5, 6)
	}
	n := r.Range(1, maxFrames)
	for i := 0; i < n; i++ {
		f := AFrame{Seed: r.Next(), Dur: animDurations[r.Intn(len(animDurations))]}
		if r.Pct(70) {
			f.Dur = r.Pick(10, 20, 40, 100, 1000)
		} else if r.Pct(4) {
			// a display time one stored frame cannot carry (24 bits of milliseconds): the
			// encoder may refuse it, it must not shorten it silently
			f.Dur = r.Pick(1<<24, 1<<24+1, 20000000, 1<<25+7)
		}
		if i == 0 {
			f.Mut = "first"
		} else {
			f.Mut = animMuts[r.Intn(len(animMuts))]
		}
		if r.Pct(30) {
			f.Type = r.PickS("sub", "rgba", "rgbasub", "nrgba64")
		}
		if i > 0 && r.Pct(35) {
			switch a.Frames[i-1].Mut {
			case "most", "big", "small", "rect":
				f.Mut = "same" // a duplicate right after a structural decision of the encoder
			case "corners", "semi", "pixel":
				f.Mut = "erase" // pixels the previous sub-frame left untouched disappear
			case "erase", "alphaonly", "toggle":
				f.Mut = "toggle" // ... and come back (off, on, off, on)
			}
		}
		a.Frames = append(a.Frames, f)
	}
	return a
}

func randPixel(r *RNG, alpha string) color.NRGBA {
	v := r.Next()
	c := color.NRGBA{uint8(v), uint8(v >> 8), uint8(v >> 16), 255}
	switch alpha {
	case "binary":
		if (v>>24)&3 == 0 {
			c.A = 0
		}
	case "graded":
		switch (v >> 24) % 8 {
		case 0:
			c.A = 0
		case 1:
			c.A = 1
		case 2:
			c.A = 127
		case 3:
			c.A = 128
		case 4:
			c.A = 254
		case 5:
			c.A = uint8(v >> 32)
		}
	}
	return c
}

// Canvases returns the images passed to AddFrame and the full canvases they mean.
func (a AnimSpec) Canvases() (inputs []image.Image, canvases []*image.NRGBA) {
	w, h := a.CW, a.CH
	var prev, prev2 *image.NRGBA
	for i, f := range a.Frames {
		r := NewRNG(f.Seed)
		cur := image.NewNRGBA(image.Rect(0, 0, w, h))
		if prev != nil {
			copy(cur.Pix, prev.Pix)
		}
		var input image.Image
		switch f.Mut {
		case "first", "big":
			fam := r.PickS("flat", "hgrad", "smooth", "noise", "pal", "text")
			alpha := "opaque"
			switch a.Alpha {
			case "binary":
				alpha = r.PickS("blocks", "stripes", "single")
			case "graded":
				alpha = r.PickS("levels", "gradient", "noise", "blocks")
			}
			src := Generate(ImgSpec{Family: fam, W: w, H: h, Seed: r.Next(), Colors: 6, Alpha: alpha, Levels: 4, Type: "nrgba"}).(*image.NRGBA)
			copy(cur.Pix, src.Pix)
			if a.Alpha == "graded" {
				// make sure some semi-transparent pixels exist
				for k := 0; k < 1+w*h/8; k++ {
					x, y := r.Intn(w), r.Intn(h)
					cur.Pix[y*cur.Stride+4*x+3] = uint8(r.Pick(1, 127, 128, 200, 254))
				}
			}
		case "same":
		case "most":
			// new smooth content almost everywhere, a few scattered pixels stay as they
			// were (the >90 %-changed path, where a key frame competes with a sub-frame)
			src := Generate(ImgSpec{Family: r.PickS("smooth", "hgrad", "dgrad"), W: w, H: h, Seed: r.Next(), Alpha: "opaque", Type: "nrgba"}).(*image.NRGBA)
			for i := 0; i < w*h; i++ {
				if r.Intn(100) < 94 {
					copy(cur.Pix[4*i:4*i+4], src.Pix[4*i:4*i+4])
				}
			}
		case "pixel":
			x, y := r.Intn(w), r.Intn(h)
			cur.SetNRGBA(x, y, randPixel(r, a.Alpha))
		case "rect":
			rw, rh := 1+r.Intn(imax(1, w/2)), 1+r.Intn(imax(1, h/2))
			x0, y0 := r.Intn(w-rw+1), r.Intn(h-rh+1)
			if x0%2 == 0 && x0+1+rw <= w {
				x0++ // odd offsets on purpose
			}
			if y0%2 == 0 && y0+1+rh <= h {
				y0++
			}
			for y := y0; y < y0+rh; y++ {
				for x := x0; x < x0+rw; x++ {
					cur.SetNRGBA(x, y, randPixel(r, a.Alpha))
				}
			}
		case "alphaonly":
			rw, rh := 1+r.Intn(imax(1, w/2)), 1+r.Intn(imax(1, h/2))
			x0, y0 := r.Intn(w-rw+1), r.Intn(h-rh+1)
			for y := y0; y < y0+rh; y++ {
				for x := x0; x < x0+rw; x++ {
					if a.Alpha != "opaque" {
						cur.Pix[y*cur.Stride+4*x+3] = randPixel(r, a.Alpha).A
					} else {
						cur.Pix[y*cur.Stride+4*x] ^= 1
					}
				}
			}
		case "semi":
			// change two far-apart pixels so that the changed rectangle contains
			// unchanged (possibly semi-transparent) neighbours
			x1, y1 := r.Intn(imax(1, w/2)), r.Intn(imax(1, h/2))
			x2, y2 := w-1-r.Intn(imax(1, w/2)), h-1-r.Intn(imax(1, h/2))
			p1, p2 := randPixel(r, "opaque"), randPixel(r, "opaque")
			cur.SetNRGBA(x1, y1, p1)
			cur.SetNRGBA(x2, y2, p2)
		case "toggle":
			// back to the picture shown before the previous one (a blinking element:
			// whatever the last frame added, removed or wiped is undone exactly)
			if prev2 != nil {
				copy(cur.Pix, prev2.Pix)
			} else {
				cur.SetNRGBA(r.Intn(w), r.Intn(h), randPixel(r, a.Alpha))
			}
		case "corners":
			// two opposite corners change: the changed rectangle is exactly the canvas,
			// everything inside it is unchanged
			cur.SetNRGBA(0, 0, randPixel(r, "opaque"))
			cur.SetNRGBA(w-1, h-1, randPixel(r, "opaque"))
			cur.Pix[0] ^= 0x80
			cur.Pix[len(cur.Pix)-4] ^= 0x80
		case "erase":
			// scattered pixels and one rectangle are wiped (to transparent when the
			// animation has alpha, else to one flat colour)
			wipe := color.NRGBA{}
			if a.Alpha == "opaque" {
				wipe = randPixel(r, "opaque")
			}
			for k := 0; k < 1+w*h/6; k++ {
				cur.SetNRGBA(r.Intn(w), r.Intn(h), wipe)
			}
			rw, rh := 1+r.Intn(imax(1, w/2)), 1+r.Intn(imax(1, h/2))
			x0, y0 := r.Intn(w-rw+1), r.Intn(h-rh+1)
			for y := y0; y < y0+rh; y++ {
				for x := x0; x < x0+rw; x++ {
					cur.SetNRGBA(x, y, wipe)
				}
			}
		case "small":
			// an image smaller than the canvas: placed at (0,0) on a transparent canvas
			sw, sh := 1+r.Intn(w), 1+r.Intn(h)
			small := image.NewNRGBA(image.Rect(0, 0, sw, sh))
			for y := 0; y < sh; y++ {
				for x := 0; x < sw; x++ {
					small.SetNRGBA(x, y, randPixel(r, a.Alpha))
				}
			}
			for k := range cur.Pix {
				cur.Pix[k] = 0
			}
			for y := 0; y < sh; y++ {
				copy(cur.Pix[y*cur.Stride:y*cur.Stride+4*sw], small.Pix[y*small.Stride:y*small.Stride+4*sw])
			}
			if sw != w || sh != h {
				input = small
			}
		default:
			panic("unknown mutation " + f.Mut)
		}
		_ = i
		if input == nil {
			c := image.NewNRGBA(cur.Rect)
			copy(c.Pix, cur.Pix)
			input = c
		}
		input = wrapAnimInput(input.(*image.NRGBA), f.Type, r)
		inputs = append(inputs, input)
		// the canvas this input means: the picture read as non-premultiplied 8-bit RGBA
		// (the standard library's colour conversion, which is not exact for 16-bit
		// pictures with very low alpha), placed at (0,0) on a transparent canvas
		conv := ToNRGBA(input)
		canvas := image.NewNRGBA(image.Rect(0, 0, w, h))
		for y := 0; y < conv.Rect.Dy() && y < h; y++ {
			n := conv.Rect.Dx()
			if n > w {
				n = w
			}
			copy(canvas.Pix[y*canvas.Stride:y*canvas.Stride+4*n], conv.Pix[y*conv.Stride:y*conv.Stride+4*n])
		}
		canvases = append(canvases, canvas)
		prev2, prev = prev, cur
	}
	return
}

func imax(a, b int) int {
	if a > b {
		return a
	}
	return b
}

// AnimOp: an encode-then-decode of an animation used by C10 workload D and C05.
type AnimOp struct {
	Spec     AnimSpec `json:"spec"`
	Corrupt  []int    `json:"corrupt_frames,omitempty"` // indices of frames whose bitstream gets corrupted
	Parallel bool     `json:"parallel"`
}

func GenAnimDecodeOp(r *RNG) AnimOp {
	a := GenAnimSpec(r, 40, 10, r.Bool(), 40)
	// make frames distinct so that several frames exist
	for i := range a.Frames {
		if i > 0 {
			a.Frames[i].Mut = r.PickS("rect", "big", "pixel", "rect")
		}
	}
	for len(a.Frames) < 3 {
		a.Frames = append(a.Frames, AFrame{Mut: "rect", Dur: 40, Seed: r.Next()})
	}
	op := AnimOp{Spec: a, Parallel: true}
	if r.Pct(35) {
		for k := 0; k < 1+r.Intn(2); k++ {
			op.Corrupt = append(op.Corrupt, r.Intn(len(a.Frames)))
		}
	}
	return op
}

var errInjectedCodec = errors.New("verif: injected frame-codec failure")

// EncodeAnim drives the animation encoder with the spec's history. It must run
// inside a world. Returns the bytes written, AddFrame/Close errors and counters.
type AnimEncodeResult struct {
	Data     []byte
	AddErr   error
	AddErrAt int
	CloseErr error
	AltFails int
	BGFails  int
	Writer   *SimWriter
}

func EncodeAnim(a AnimSpec, inputs []image.Image, wf WriteFault) *AnimEncodeResult {
	res := &AnimEncodeResult{AddErrAt: -1, Writer: &SimWriter{Fault: wf}}
	enc := animation.NewEncoder(res.Writer, a.CW, a.CH, &animation.EncodeOptions{
		LoopCount: a.Loop, BackgroundColor: color.NRGBA{uint8(a.Bg >> 16), uint8(a.Bg >> 8), uint8(a.Bg), uint8(a.Bg >> 24)},
		Quality: a.Quality, Lossless: a.Lossless, AllowMixed: a.AllowMixed, Kmin: a.Kmin, Kmax: a.Kmax,
	})
	if enc == nil {
		res.AddErr = errors.New("NewEncoder returned nil")
		return res
	}
	if a.ICCLen >= 0 {
		enc.SetICCProfile(metaBlob(a.Seed, "icc", a.ICCLen))
	}
	if a.EXIFLen >= 0 {
		enc.SetEXIF(metaBlob(a.Seed, "exif", a.EXIFLen))
	}
	if a.XMPLen >= 0 {
		enc.SetXMP(metaBlob(a.Seed, "xmp", a.XMPLen))
	}
	var shared *image.NRGBA
	var sharedRGBA *image.RGBA
	feed := func(in image.Image) image.Image {
		if b := in.Bounds(); !a.Reuse || b.Dx() != a.CW || b.Dy() != a.CH {
			return in
		}
		if shared == nil {
			shared = image.NewNRGBA(image.Rect(0, 0, a.CW, a.CH))
		}
		n := ToNRGBA(in)
		if a.ReuseRGBA {
			binary := true
			for i := 3; i < len(n.Pix); i += 4 {
				if n.Pix[i] != 0 && n.Pix[i] != 255 {
					binary = false
					break
				}
			}
			if binary {
				if sharedRGBA == nil {
					sharedRGBA = image.NewRGBA(image.Rect(0, 0, a.CW, a.CH))
				}
				copy(sharedRGBA.Pix, n.Pix)
				for i := 0; i < len(n.Pix); i += 4 {
					if n.Pix[i+3] == 0 {
						sharedRGBA.Pix[i], sharedRGBA.Pix[i+1], sharedRGBA.Pix[i+2] = 0, 0, 0
					}
				}
				return sharedRGBA
			}
		}
		copy(shared.Pix, n.Pix)
		return shared
	}
	scribble := func() {
		if shared != nil {
			for i := range shared.Pix {
				shared.Pix[i] ^= 0x5a
			}
		}
		if sharedRGBA != nil {
			for i := range sharedRGBA.Pix {
				sharedRGBA.Pix[i] = sharedRGBA.Pix[i]>>1 + 3
			}
		}
	}
	// tolerated codec-failure faults through the existing function seam
	orig := animation.FrameEncoderFunc
	if a.FailAlt || a.FailBG {
		callInFrame := 0
		animation.FrameEncoderFunc = func(img image.Image, lossless bool, quality int) ([]byte, error) {
			n := callInFrame
			callInFrame++
			// Within one AddFrame of a sub-frame the call order is:
			//   dispose-none primary [, alt]; dispose-bg primary [, alt]; (key-frame try)
			// The documented tolerated failures are the alternate-codec call (any
			// position) and the dispose-background candidate.
			isAlt := a.AllowMixed && lossless != a.Lossless
			if a.FailAlt && isAlt {
				res.AltFails++
				return nil, errInjectedCodec
			}
			perCand := 1
			if a.AllowMixed {
				perCand = 2
			}
			if a.FailBG && !isAlt && n == perCand && subFrameInProgress {
				res.BGFails++
				return nil, errInjectedCodec
			}
			return orig(img, lossless, quality)
		}
		defer func() { animation.FrameEncoderFunc = orig }()
		for i, in := range inputs {
			callInFrame = 0
			subFrameInProgress = i > 0
			if err := enc.AddFrame(feed(in), time.Duration(a.Frames[i].Dur)*time.Millisecond); err != nil {
				res.AddErr, res.AddErrAt = err, i
				return res
			}
			scribble()
		}
	} else {
		for i, in := range inputs {
			if err := enc.AddFrame(feed(in), time.Duration(a.Frames[i].Dur)*time.Millisecond); err != nil {
				res.AddErr, res.AddErrAt = err, i
				return res
			}
			scribble()
		}
	}
	res.CloseErr = enc.Close()
	res.Data = res.Writer.Data
	return res
}

var subFrameInProgress bool

// Playback reads an animation file back the way the property says: read, decode
// all frames, reconstruct canvases in order.
type PlaybackResult struct {
	Anim      *animation.Animation
	Canvases  []*image.NRGBA
	Durations []int // ms
	Err       error
	Stage     string
}

func Playback(data []byte, parallel bool) *PlaybackResult {
	pr := &PlaybackResult{}
	anim, err := animation.DecodeBytes(data)
	if err != nil {
		pr.Err, pr.Stage = err, "DecodeBytes"
		return pr
	}
	pr.Anim = anim
	if parallel {
		err = anim.DecodeFramesParallel()
	} else {
		err = anim.DecodeFrames()
	}
	if err != nil {
		pr.Err, pr.Stage = err, "DecodeFrames"
		return pr
	}
	dec, err := animation.NewAnimDecoder(anim)
	if err != nil {
		pr.Err, pr.Stage = err, "NewAnimDecoder"
		return pr
	}
	for dec.HasNext() {
		c, d, err := dec.NextFrame()
		if err != nil {
			pr.Err, pr.Stage = err, "NextFrame"
			return pr
		}
		pr.Canvases = append(pr.Canvases, c)
		pr.Durations = append(pr.Durations, int(d/time.Millisecond))
	}
	return pr
}

// visuallyEqual: equal pixels, fully transparent pixels compare equal whatever their colour.
func visuallyEqual(a, b *image.NRGBA) bool {
	if a.Rect.Dx() != b.Rect.Dx() || a.Rect.Dy() != b.Rect.Dy() {
		return false
	}
	w, h := a.Rect.Dx(), a.Rect.Dy()
	for y := 0; y < h; y++ {
		ao, bo := a.PixOffset(a.Rect.Min.X, a.Rect.Min.Y+y), b.PixOffset(b.Rect.Min.X, b.Rect.Min.Y+y)
		ra, rb := a.Pix[ao:ao+4*w], b.Pix[bo:bo+4*w]
		if bytes.Equal(ra, rb) {
			continue
		}
		for x := 0; x < w; x++ {
			pa, pb := ra[4*x:4*x+4], rb[4*x:4*x+4]
			if pa[3] == 0 && pb[3] == 0 {
				continue
			}
			if !bytes.Equal(pa, pb) {
				return false
			}
		}
	}
	return true
}

func firstVisualDiff(a, b *image.NRGBA) string {
	if a.Rect.Dx() != b.Rect.Dx() || a.Rect.Dy() != b.Rect.Dy() {
		return fmt.Sprintf("size %v vs %v", a.Rect, b.Rect)
	}
	w, h := a.Rect.Dx(), a.Rect.Dy()
	n := 0
	first := ""
	for y := 0; y < h; y++ {
		for x := 0; x < w; x++ {
			pa := a.Pix[a.PixOffset(a.Rect.Min.X+x, a.Rect.Min.Y+y):][:4]
			pb := b.Pix[b.PixOffset(b.Rect.Min.X+x, b.Rect.Min.Y+y):][:4]
			if (pa[3] == 0 && pb[3] == 0) || bytes.Equal(pa, pb) {
				continue
			}
			if n == 0 {
				first = fmt.Sprintf("pixel (%d,%d): expected %v, played back %v", x, y, pa, pb)
			}
			n++
		}
	}
	return fmt.Sprintf("%d of %d pixels differ; first %s", n, w*h, first)
}

type picture struct {
	img *image.NRGBA
	dur int64
}

// collapse merges consecutive visually-equal canvases, summing display times.
func collapse(cs []*image.NRGBA, durs []int) []picture {
	var out []picture
	for i, c := range cs {
		if len(out) > 0 && visuallyEqual(out[len(out)-1].img, c) {
			out[len(out)-1].dur += int64(durs[i])
			continue
		}
		out = append(out, picture{c, int64(durs[i])})
	}
	return out
}

func warmUpExtra() {
	r := NewRNG(99)
	a := GenAnimSpec(r, 12, 3, true, 100)
	in, _ := a.Canvases()
	res := EncodeAnim(a, in, WriteFault{})
	if res.Data != nil {
		Playback(res.Data, false)
	}
	b := GenAnimSpec(r, 12, 3, false, 0)
	b.AllowMixed = true
	in, _ = b.Canvases()
	res = EncodeAnim(b, in, WriteFault{})
	if res.Data != nil {
		Playback(res.Data, true)
	}
}

// wrapAnimInput re-houses the same pixels in another storage layout / image type.
func wrapAnimInput(p *image.NRGBA, typ string, r *RNG) image.Image {
	w, h := p.Rect.Dx(), p.Rect.Dy()
	binary := true
	for i := 3; i < len(p.Pix); i += 4 {
		if p.Pix[i] != 0 && p.Pix[i] != 255 {
			binary = false
			break
		}
	}
	switch typ {
	case "sub":
		ox, oy := 1+r.Intn(4), 1+r.Intn(4)
		big := image.NewNRGBA(image.Rect(0, 0, w+ox+2, h+oy+1))
		for i := range big.Pix {
			big.Pix[i] = uint8(r.Next())
		}
		for y := 0; y < h; y++ {
			copy(big.Pix[(y+oy)*big.Stride+ox*4:(y+oy)*big.Stride+(ox+w)*4], p.Pix[y*p.Stride:y*p.Stride+w*4])
		}
		return big.SubImage(image.Rect(ox, oy, ox+w, oy+h))
	case "rgba", "rgbasub":
		if !binary {
			return p
		}
		ox, oy := 0, 0
		if typ == "rgbasub" {
			ox, oy = 1+r.Intn(4), 1+r.Intn(4)
		}
		big := image.NewRGBA(image.Rect(0, 0, w+ox+ox/2, h+oy))
		for i := range big.Pix {
			big.Pix[i] = uint8(r.Next()) | 0x80
		}
		for i := 3; i < len(big.Pix); i += 4 {
			big.Pix[i] = 255
		}
		for y := 0; y < h; y++ {
			for x := 0; x < w; x++ {
				c := p.NRGBAAt(x, y)
				if c.A == 0 {
					big.SetRGBA(x+ox, y+oy, color.RGBA{})
				} else {
					big.SetRGBA(x+ox, y+oy, color.RGBA{c.R, c.G, c.B, 255})
				}
			}
		}
		return big.SubImage(image.Rect(ox, oy, ox+w, oy+h))
	case "nrgba64":
		out := image.NewNRGBA64(p.Rect)
		for y := 0; y < h; y++ {
			for x := 0; x < w; x++ {
				c := p.NRGBAAt(x, y)
				out.SetNRGBA64(x, y, color.NRGBA64{uint16(c.R) * 0x101, uint16(c.G) * 0x101, uint16(c.B) * 0x101, uint16(c.A) * 0x101})
			}
		}
		return out
	}
	return p
}
