package verifh

import (
	"encoding/json"
	"os"
	"fmt"
	"image"

	"github.com/deepteams/webp/internal/vsim"
)

// C08 / C18 — histories of AddFrame calls on the animation encoder.

type AnimParams struct {
	Sched    SchedSpec  `json:"sched"`
	Spec     AnimSpec   `json:"spec"`
	CloseWF  WriteFault `json:"close_write_fault"`
	Parallel bool       `json:"parallel_decode"`
}

func genAnimParams(r *RNG, lossless bool, mixedPct int, alphaPct int, tier string) *AnimParams {
	p := &AnimParams{Sched: genStoreSched(r)}
	maxSide := 40
	if r.Pct(6) {
		maxSide = 110 // large enough for some parallel codec sections
	}
	p.Spec = GenAnimSpec(r, maxSide, 8, lossless, alphaPct)
	p.Spec.AllowMixed = r.Pct(mixedPct)
	if p.Spec.AllowMixed && r.Pct(25) {
		p.Spec.FailAlt = true
	}
	if r.Pct(12) {
		p.Spec.FailBG = true
	}
	if r.Pct(8) {
		p.CloseWF = GenWriteFault(r, 100, 200)
	}
	p.Parallel = r.Bool()
	p.Spec.Reuse = r.Pct(25)
	p.Spec.ReuseRGBA = p.Spec.Reuse && r.Pct(50)
	return p
}

func shrinkAnim(pp any) []any {
	p := pp.(*AnimParams)
	var out []any
	add := func(f func(q *AnimParams)) {
		q := *p
		q.Spec.Frames = append([]AFrame{}, p.Spec.Frames...)
		f(&q)
		out = append(out, &q)
	}
	if len(p.Spec.Frames) > 1 {
		add(func(q *AnimParams) { q.Spec.Frames = q.Spec.Frames[:len(q.Spec.Frames)-1] })
		for i := 1; i < len(p.Spec.Frames)-1; i++ {
			i := i
			add(func(q *AnimParams) { q.Spec.Frames = append(q.Spec.Frames[:i], q.Spec.Frames[i+1:]...) })
		}
	}
	if p.Sched.Policy != vsim.PolCanonical || p.Sched.PoolHitPct != 0 || p.Sched.Procs != 1 {
		add(func(q *AnimParams) {
			q.Sched.Policy, q.Sched.Procs = vsim.PolCanonical, 1
			q.Sched.PoolHitPct, q.Sched.PoolDropPm, q.Sched.PoolGCPm = 0, 0, 0
		})
	}
	if p.Spec.Reuse {
		add(func(q *AnimParams) { q.Spec.Reuse = false })
	}
	if p.Spec.FailAlt || p.Spec.FailBG {
		add(func(q *AnimParams) { q.Spec.FailAlt, q.Spec.FailBG = false, false })
	}
	if p.Spec.CW > 2 {
		add(func(q *AnimParams) { q.Spec.CW = (q.Spec.CW + 1) / 2 })
	}
	if p.Spec.CH > 2 {
		add(func(q *AnimParams) { q.Spec.CH = (q.Spec.CH + 1) / 2 })
	}
	if p.Spec.ICCLen >= 0 || p.Spec.EXIFLen >= 0 || p.Spec.XMPLen >= 0 {
		add(func(q *AnimParams) { q.Spec.ICCLen, q.Spec.EXIFLen, q.Spec.XMPLen = -1, -1, -1 })
	}
	if p.Parallel {
		add(func(q *AnimParams) { q.Parallel = false })
	}
	return out
}

type animOutcome struct {
	inputs   []image.Image
	canvases []*image.NRGBA
	durs     []int
	enc      *AnimEncodeResult
	pb       *PlaybackResult
	w        *vsim.World
}

func runAnim(p *AnimParams, x *X) *animOutcome {
	o := &animOutcome{}
	o.inputs, o.canvases = p.Spec.Canvases()
	for _, f := range p.Spec.Frames {
		o.durs = append(o.durs, f.Dur)
	}
	o.w = x.Explore(p.Sched.Config(), func() {
		o.enc = EncodeAnim(p.Spec, o.inputs, p.CloseWF)
		if o.enc.AddErr == nil && o.enc.CloseErr == nil {
			o.pb = Playback(o.enc.Data, p.Parallel)
		}
	})
	if o.enc != nil {
		if o.enc.Writer.Fired {
			x.Fault("close_write_" + p.CloseWF.Kind)
		}
		if o.enc.AltFails > 0 {
			x.Fault("alternate_codec_failure")
		}
		if o.enc.BGFails > 0 {
			x.Fault("background_candidate_failure")
		}
	}
	return o
}

// animCommon: simulator states and fault semantics. Returns (violation, proceed).
func animCommon(prop string, p *AnimParams, o *animOutcome, x *X) (*Violation, bool) {
	if v := x.WorldViolation(prop, o.w); v != nil {
		return v, false
	}
	if x.Inconclusive != "" || o.enc == nil {
		return nil, false
	}
	if o.enc.AddErr != nil {
		if at := o.enc.AddErrAt; at >= 0 && at < len(p.Spec.Frames) && p.Spec.Frames[at].Dur > 1<<24-1 {
			// refusing a display time that one frame cannot store is the encoder's right
			x.Count("unrepresentable_duration_refused", 1)
			return nil, false
		}
		why := "without any injected fault"
		if o.enc.AltFails+o.enc.BGFails > 0 {
			why = fmt.Sprintf("although only tolerated codec failures were injected (alternate-codec %d, background-candidate %d)", o.enc.AltFails, o.enc.BGFails)
		}
		return &Violation{Prop: prop, Sig: "addframe-error", Detail: fmt.Sprintf("%s: AddFrame #%d failed (%v) %s", p.Spec, o.enc.AddErrAt, o.enc.AddErr, why)}, false
	}
	if o.enc.Writer.Fired {
		if o.enc.CloseErr == nil {
			return &Violation{Prop: prop, Sig: "close-write-fault-swallowed:" + p.CloseWF.Kind, Detail: fmt.Sprintf("%s: a Write failed during Close (%s at %d) but Close returned nil", p.Spec, p.CloseWF.Kind, p.CloseWF.At)}, false
		}
		x.Count("close_fault_surfaced_as_error", 1)
		return nil, false
	}
	if o.enc.CloseErr != nil {
		return &Violation{Prop: prop, Sig: "close-error", Detail: fmt.Sprintf("%s: Close failed without a writer fault: %v", p.Spec, o.enc.CloseErr)}, false
	}
	if o.pb.Err != nil {
		return &Violation{Prop: prop, Sig: "playback-error:" + o.pb.Stage, Detail: fmt.Sprintf("%s: the file written by the animation encoder cannot be played back: %s: %v", p.Spec, o.pb.Stage, o.pb.Err)}, false
	}
	return nil, true
}

func animCase(p *AnimParams, o *animOutcome, x *X) {
	nt := len(p.Spec.Frames) >= 2
	x.Case(o.w.Hash^hashString(p.Spec.String()), nt)
	x.Workload(hashString(p.Spec.String()))
	x.Count("addframe_calls", int64(len(p.Spec.Frames)))
	for _, f := range p.Spec.Frames {
		x.Count("mut_"+f.Mut, 1)
	}
	if o.pb != nil && o.pb.Anim != nil {
		for _, f := range o.pb.Anim.Frames {
			if f.Blend == 0 {
				x.Count("stored_frames_blend", 1)
			}
			if f.Dispose == 1 {
				x.Count("stored_frames_dispose_background", 1)
			}
			if f.OffsetX != 0 || f.OffsetY != 0 {
				x.Count("stored_subframes_with_offset", 1)
			}
		}
		x.Count("stored_frames", int64(len(o.pb.Anim.Frames)))
	}
}

// ---------------------------------------------------------------- C08

type propC08 struct{}

func (propC08) ID() string     { return "C08" }
func (propC08) Level() string  { return "exploration" }
func (propC08) NewParams() any { return &AnimParams{} }
func (propC08) Plan(tier string) (int, int) {
	if tier == "thorough" {
		return 1000000, 0
	}
	return 8000, 0
}
func (propC08) Gen(seed uint64, tier string, idx int) any {
	r := NewRNG(seed)
	p := genAnimParams(r, true, 0, 60, tier)
	return p
}
func (propC08) Shrink(pp any) []any { return shrinkAnim(pp) }

func (propC08) Execute(pp any, x *X) *Violation {
	p := pp.(*AnimParams)
	o := runAnim(p, x)
	animCase(p, o, x)
	x.Sample(map[string]any{"spec": p.Spec.String(), "sched": p.Sched, "close_fault": p.CloseWF})
	v, ok := animCommon("C08", p, o, x)
	if !ok {
		return v
	}
	if o.pb.Anim.CanvasWidth != p.Spec.CW || o.pb.Anim.CanvasHeight != p.Spec.CH {
		return &Violation{Prop: "C08", Sig: "canvas-size", Detail: fmt.Sprintf("%s: canvas %dx%d played back as %dx%d", p.Spec, p.Spec.CW, p.Spec.CH, o.pb.Anim.CanvasWidth, o.pb.Anim.CanvasHeight)}
	}
	ref := collapse(o.canvases, o.durs)
	got := collapse(o.pb.Canvases, o.pb.Durations)
	if len(ref) != len(got) {
		return &Violation{Prop: "C08", Sig: "picture-count", Detail: fmt.Sprintf("%s: %d distinct pictures were added, playback shows %d (stored frames %d)", p.Spec, len(ref), len(got), len(o.pb.Anim.Frames))}
	}
	for i := range ref {
		if !visuallyEqual(ref[i].img, got[i].img) {
			fr := ""
			if i < len(o.pb.Anim.Frames) {
				f := o.pb.Anim.Frames[i]
				fr = fmt.Sprintf(" [stored frame %d: offset (%d,%d) size %v blend=%d dispose=%d]", i, f.OffsetX, f.OffsetY, f.Image.Bounds().Size(), f.Blend, f.Dispose)
			}
			sig := "picture-mismatch"
			if i > 0 {
				sig = "picture-mismatch:subframe"
			}
			return &Violation{Prop: "C08", Sig: sig, Detail: fmt.Sprintf("%s: picture %d of %d: %s%s", p.Spec, i, len(ref), firstVisualDiff(ref[i].img, got[i].img), fr)}
		}
	}
	if len(ref) >= 2 {
		var tr, tg int64
		for i := range ref {
			tr += ref[i].dur
			tg += got[i].dur
			if ref[i].dur != got[i].dur {
				return &Violation{Prop: "C08", Sig: "display-time", Detail: fmt.Sprintf("%s: picture %d was added for %d ms, plays for %d ms", p.Spec, i, ref[i].dur, got[i].dur)}
			}
		}
		if tr != tg {
			return &Violation{Prop: "C08", Sig: "total-duration", Detail: fmt.Sprintf("%d vs %d", tr, tg)}
		}
		if o.pb.Anim.LoopCount != p.Spec.Loop {
			return &Violation{Prop: "C08", Sig: "loop-count", Detail: fmt.Sprintf("%s: loop count %d played back as %d", p.Spec, p.Spec.Loop, o.pb.Anim.LoopCount)}
		}
		x.Count("animations_with_2+_pictures_verified", 1)
	} else {
		x.Count("single_picture_verified", 1)
	}
	return nil
}

func animDoc(rule string, must []string) PropDoc {
	return PropDoc{
		Rule: rule,
		Assumptions: []string{
			"playback is by the package's own reader/decoder/compositor as the property says; the compositor itself is checked against an independent model under C09",
			"frame content is an ordinary seeded generator; the simulated dimensions are the history of calls, tolerated codec failures, writer faults on Close, worker count, schedule and pools",
			"sampling: a clean batch is evidence, not proof",
		},
		Real:      []string{"every line of deepteams/webp (animation encoder, muxer, demuxer, codecs, compositor), rewritten by simgen"},
		Simulated: []string{"animation.FrameEncoderFunc seam (tolerated failures)", "io.Writer given to NewEncoder", "worker count, schedule, pools"},
		Reference: []string{"the list of input canvases with merged duplicates and summed display times"},
		MustReach: must,
	}
}

func (propC08) Describe() PropDoc {
	return animDoc("one run = one seeded history of 1-8 AddFrame calls on the lossless animation encoder (frame i derived from frame i-1 by: no change, one pixel, small rectangle at odd offsets, >=90 % changed, alpha-only change, two far-apart pixels with unchanged semi-transparent neighbours in between, the two opposite corner pixels, scattered pixels and a rectangle wiped to transparent, a return to the picture before the previous one, an image smaller than the canvas; inputs as NRGBA, RGBA, NRGBA64 and sub-image views; durations incl. 0 and 2^24-1; Kmin/Kmax incl. disabled and every-frame) then Close, then playback. distinct = distinct (spec, explored-world trace hash); non-trivial = at least two AddFrame calls.",
		[]string{"animations_with_2+_pictures_verified", "stored_frames_blend", "stored_frames_dispose_background", "stored_subframes_with_offset", "mut_semi", "mut_same", "background_candidate_failure", "close_fault_surfaced_as_error"})
}

// ---------------------------------------------------------------- C18

type propC18 struct{}

func (propC18) ID() string     { return "C18" }
func (propC18) Level() string  { return "exploration" }
func (propC18) NewParams() any { return &AnimParams{} }
func (propC18) Plan(tier string) (int, int) {
	if tier == "thorough" {
		return 600000, 0
	}
	return 8000, 0
}
func (propC18) Gen(seed uint64, tier string, idx int) any {
	r := NewRNG(seed)
	p := genAnimParams(r, false, 50, 90, tier)
	if p.Spec.AllowMixed && r.Pct(30) {
		p.Spec.Lossless = true // mixed mode starting from the lossless side
	}
	for i := range p.Spec.Frames {
		if p.Spec.Frames[i].Dur > 1<<20 {
			p.Spec.Frames[i].Dur = 40 // no duration-overflow filler frames here (C08 covers them)
		}
	}
	return p
}
func (propC18) Shrink(pp any) []any { return shrinkAnim(pp) }

func alphaPlaneDiff(want, got *image.NRGBA) string {
	if want.Rect.Dx() != got.Rect.Dx() || want.Rect.Dy() != got.Rect.Dy() {
		return fmt.Sprintf("size %v vs %v", want.Rect, got.Rect)
	}
	w, h := want.Rect.Dx(), want.Rect.Dy()
	n, first := 0, ""
	for y := 0; y < h; y++ {
		for xx := 0; xx < w; xx++ {
			a := want.Pix[want.PixOffset(want.Rect.Min.X+xx, want.Rect.Min.Y+y)+3]
			b := got.Pix[got.PixOffset(got.Rect.Min.X+xx, got.Rect.Min.Y+y)+3]
			if a != b {
				if n == 0 {
					first = fmt.Sprintf("(%d,%d): source alpha %d, played back %d", xx, y, a, b)
				}
				n++
			}
		}
	}
	if n == 0 {
		return ""
	}
	return fmt.Sprintf("%d of %d alpha values differ; first %s", n, w*h, first)
}

func (propC18) Execute(pp any, x *X) *Violation {
	p := pp.(*AnimParams)
	o := runAnim(p, x)
	animCase(p, o, x)
	x.Sample(map[string]any{"spec": p.Spec.String(), "sched": p.Sched})
	v, ok := animCommon("C18", p, o, x)
	if !ok {
		return v
	}
	// The statement is about alpha only, so both sides are reduced to their sequence of
	// distinct alpha planes (consecutive pictures with the same alpha plane collapsed):
	// which inputs the encoder merges or splits then does not matter for the alignment.
	sameAlpha := func(a, b *image.NRGBA) bool { return alphaPlaneDiff(a, b) == "" }
	collapseAlpha := func(cs []*image.NRGBA) []*image.NRGBA {
		var out []*image.NRGBA
		for _, c := range cs {
			if len(out) > 0 && sameAlpha(out[len(out)-1], c) {
				continue
			}
			out = append(out, c)
		}
		return out
	}
	ref, got := collapseAlpha(o.canvases), collapseAlpha(o.pb.Canvases)
	mode := "lossy"
	if p.Spec.AllowMixed {
		mode = "mixed"
	}
	for i := range ref {
		if i >= len(got) {
			break
		}
		if d := alphaPlaneDiff(ref[i], got[i]); d != "" {
			return &Violation{Prop: "C18", Sig: "alpha-lost:" + mode, Detail: fmt.Sprintf("%s: alpha plane %d of %d (consecutive pictures with equal alpha collapsed): %s", p.Spec, i, len(ref), d)}
		}
	}
	if len(ref) != len(got) {
		return &Violation{Prop: "C18", Sig: "alpha-sequence:" + mode, Detail: fmt.Sprintf("%s: the inputs show %d distinct alpha planes in a row, the playback %d", p.Spec, len(ref), len(got))}
	}
	x.Count("animations_alpha_verified_"+mode, 1)
	if p.Spec.Alpha != "opaque" {
		x.Count("animations_with_transparency_verified", 1)
	}
	return nil
}

func (propC18) Describe() PropDoc {
	return animDoc("one run = one seeded history of 1-8 AddFrame calls (90 % with binary or graded transparency; same frame mutations as C08 incl. corners / erase / toggle) on the animation encoder in lossy mode or mixed-codec mode (50 %), then Close and playback; the alpha plane of every played-back canvas must equal the alpha plane of the corresponding input. distinct = distinct (spec, explored-world trace hash); non-trivial = at least two AddFrame calls.",
		[]string{"animations_alpha_verified_lossy", "animations_alpha_verified_mixed", "animations_with_transparency_verified", "alternate_codec_failure"})
}

// animDump (development aid): re-runs the animation history of a replay file and prints
// the source and played-back alpha planes and the stored frames.
func animDump(args []string) int {
	b, err := os.ReadFile(args[0])
	if err != nil {
		return 2
	}
	var rf ReplayFile
	json.Unmarshal(b, &rf)
	var p AnimParams
	json.Unmarshal(rf.Params, &p)
	for _, a := range args[1:] {
		switch a {
		case "norgba":
			p.Spec.ReuseRGBA = false
		case "noreuse":
			p.Spec.Reuse, p.Spec.ReuseRGBA = false, false
		}
	}
	warmUp()
	inputs, canv := p.Spec.Canvases()
	var res *AnimEncodeResult
	var pb *PlaybackResult
	x := &X{Stats: NewStats(), Quiet: true}
	x.Solo(1, func() {
		res = EncodeAnim(p.Spec, inputs, WriteFault{})
		if res.AddErr == nil && res.CloseErr == nil {
			pb = Playback(res.Data, false)
		}
	})
	fmt.Println("spec:", p.Spec.String(), "reuse", p.Spec.Reuse, "rgba", p.Spec.ReuseRGBA, "adderr", res.AddErr, "closeerr", res.CloseErr)
	alpha := func(c *image.NRGBA) string {
		s := ""
		for i := 3; i < len(c.Pix); i += 4 {
			s += fmt.Sprintf("%d ", c.Pix[i])
		}
		return s
	}
	for i, c := range canv {
		fmt.Printf("input %d (%T %v) alpha: %s rgb0: %v\n", i, inputs[i], inputs[i].Bounds(), alpha(c), c.Pix[:4])
	}
	if pb == nil {
		return 0
	}
	fmt.Println("playback err:", pb.Err, pb.Stage)
	if pb.Anim != nil {
		for i, f := range pb.Anim.Frames {
			fmt.Printf("stored frame %d: off (%d,%d) dur %v blend %v dispose %v hasalpha %v", i, f.OffsetX, f.OffsetY, f.Duration, f.Blend, f.Dispose, f.HasAlpha)
			if f.Image != nil {
				fmt.Printf(" image %v alpha: %s", f.Image.Bounds(), alpha(ToNRGBA(f.Image)))
			}
			fmt.Println()
		}
	}
	for i, c := range pb.Canvases {
		fmt.Printf("played %d dur %d alpha: %s\n", i, pb.Durations[i], alpha(c))
	}
	return 0
}
