package verifh

import (
	"fmt"
	"image"
	"image/color"
	"time"

	"github.com/deepteams/webp/animation"
	"github.com/deepteams/webp/internal/vsim"
	"github.com/deepteams/webp/internal/vsim/ssync"
)

// C09 — animation playback implements the container's compositing rules.
// Programmatically built Animation values (decoded frame images supplied
// directly), a seeded operation history on the stateful AnimDecoder, and a
// reference compositor written from the container specification.

type C09Frame struct {
	X, Y, W, H int
	Seed       uint64
	Blend      bool   `json:"blend"`      // true = alpha blend
	DisposeBG  bool   `json:"dispose_bg"` // dispose to background after display
	HasAlpha   bool   `json:"has_alpha"`  // bitstream-level flag; false => content is opaque
	Dur        int    `json:"dur"`
	ImgType    string `json:"img_type"` // nrgba | rgba | sub
}

type C09Params struct {
	CW, CH  int
	Frames  []C09Frame
	Ops     []string `json:"ops"` // next hasnext reset scribble yield
	Two     bool     `json:"two_decoders"`
	Sched   SchedSpec
}

type propC09 struct{}

func (propC09) ID() string     { return "C09" }
func (propC09) Level() string  { return "exploration" }
func (propC09) NewParams() any { return &C09Params{} }
func (propC09) Plan(tier string) (int, int) {
	if tier == "thorough" {
		return 50000000, 0
	}
	return 300000, 0
}

func (propC09) Gen(seed uint64, tier string, idx int) any {
	r := NewRNG(seed)
	p := &C09Params{CW: r.Range(1, 24), CH: r.Range(1, 24)}
	if r.Pct(20) {
		p.CW, p.CH = r.Range(1, 4), r.Range(1, 4)
	}
	n := r.Range(1, 10)
	for i := 0; i < n; i++ {
		f := C09Frame{Seed: r.Next(), Blend: r.Bool(), DisposeBG: r.Pct(40), HasAlpha: r.Pct(70), Dur: r.Pick(0, 10, 40), ImgType: r.PickS("nrgba", "nrgba", "nrgba", "rgba", "sub")}
		switch r.Intn(6) {
		case 0, 1: // full canvas
			f.X, f.Y, f.W, f.H = 0, 0, p.CW, p.CH
		case 2, 3: // inside
			f.W, f.H = r.Range(1, p.CW), r.Range(1, p.CH)
			f.X, f.Y = r.Intn(p.CW-f.W+1), r.Intn(p.CH-f.H+1)
		case 4: // partly outside
			f.W, f.H = r.Range(1, p.CW+3), r.Range(1, p.CH+3)
			f.X, f.Y = r.Intn(p.CW), r.Intn(p.CH)
		default: // fully outside
			f.W, f.H = r.Range(1, 5), r.Range(1, 5)
			f.X, f.Y = p.CW+r.Intn(3), r.Intn(p.CH+3)
		}
		p.Frames = append(p.Frames, f)
	}
	nops := n + r.Intn(2*n+3)
	for i := 0; i < nops; i++ {
		switch v := r.Intn(20); {
		case v < 13:
			p.Ops = append(p.Ops, "next")
		case v < 15:
			p.Ops = append(p.Ops, "hasnext")
		case v < 17:
			p.Ops = append(p.Ops, "reset")
		case v < 19:
			p.Ops = append(p.Ops, "scribble")
		default:
			p.Ops = append(p.Ops, "yield")
		}
	}
	p.Two = r.Pct(25)
	p.Sched = SchedSpec{Seed: r.Next(), Policy: vsim.PolUniform, Procs: 1}
	return p
}

func (propC09) Shrink(pp any) []any {
	p := pp.(*C09Params)
	var out []any
	if len(p.Frames) > 1 {
		for i := range p.Frames {
			q := *p
			q.Frames = append(append([]C09Frame{}, p.Frames[:i]...), p.Frames[i+1:]...)
			out = append(out, &q)
		}
	}
	if len(p.Ops) > 1 {
		for i := range p.Ops {
			q := *p
			q.Ops = append(append([]string{}, p.Ops[:i]...), p.Ops[i+1:]...)
			out = append(out, &q)
		}
	}
	if p.Two {
		q := *p
		q.Two = false
		out = append(out, &q)
	}
	return out
}

var c09Alphas = []uint8{0, 0, 1, 127, 128, 254, 255, 255}

func c09FrameImage(f C09Frame) image.Image {
	r := NewRNG(f.Seed)
	img := image.NewNRGBA(image.Rect(0, 0, f.W, f.H))
	for i := 0; i < f.W*f.H; i++ {
		v := r.Next()
		a := uint8(255)
		if f.HasAlpha {
			if (v>>40)%4 == 0 {
				a = uint8(v >> 32)
			} else {
				a = c09Alphas[(v>>32)%uint64(len(c09Alphas))]
			}
		}
		img.Pix[4*i], img.Pix[4*i+1], img.Pix[4*i+2], img.Pix[4*i+3] = uint8(v), uint8(v>>8), uint8(v>>16), a
	}
	switch f.ImgType {
	case "rgba":
		// premultiplied storage is only unambiguous for alpha 0/255
		out := image.NewRGBA(img.Rect)
		for i := 0; i < f.W*f.H; i++ {
			a := img.Pix[4*i+3]
			if a >= 128 {
				img.Pix[4*i+3] = 255
				out.Pix[4*i], out.Pix[4*i+1], out.Pix[4*i+2], out.Pix[4*i+3] = img.Pix[4*i], img.Pix[4*i+1], img.Pix[4*i+2], 255
			} else {
				img.Pix[4*i], img.Pix[4*i+1], img.Pix[4*i+2], img.Pix[4*i+3] = 0, 0, 0, 0
			}
		}
		return out
	case "sub":
		big := image.NewNRGBA(image.Rect(0, 0, f.W+3, f.H+2))
		for i := range big.Pix {
			big.Pix[i] = uint8(r.Next())
		}
		for y := 0; y < f.H; y++ {
			copy(big.Pix[(y+1)*big.Stride+8:(y+1)*big.Stride+8+4*f.W], img.Pix[y*img.Stride:y*img.Stride+4*f.W])
		}
		return big.SubImage(image.Rect(2, 1, 2+f.W, 1+f.H))
	}
	return img
}

// ---- reference compositor, from the container specification -----------------

// blendOK accepts a blended pixel if it equals libwebp's integer formula (what
// the documentation says is implemented) or is within +-1 per channel of the
// real-valued formula of the specification (which does not fix rounding).
func blendOK(src, dst, got color.NRGBA) bool {
	if src.A == 0 {
		return got == dst
	}
	// libwebp BlendPixelNonPremult
	sa, da := uint32(src.A), uint32(dst.A)
	dfa := (da * (256 - sa)) >> 8
	ba := sa + dfa
	var want color.NRGBA
	if ba == 0 {
		want = color.NRGBA{}
	} else {
		scale := uint32(1<<24) / ba
		ch := func(s, d uint8) uint8 {
			v := (uint32(s)*sa + uint32(d)*dfa) * scale >> 24
			if v > 255 {
				v = 255
			}
			return uint8(v)
		}
		want = color.NRGBA{ch(src.R, dst.R), ch(src.G, dst.G), ch(src.B, dst.B), uint8(ba)}
	}
	if got == want {
		return true
	}
	// real-valued: out_a = sa + da*(1-sa/255); out_c = (sc*sa + dc*da*(1-sa/255)) / out_a
	fa := float64(sa) + float64(da)*(1-float64(sa)/255)
	near := func(g uint8, v float64) bool { d := float64(g) - v; return d >= -1.0001 && d <= 1.0001 }
	if !near(got.A, fa) {
		return false
	}
	if fa <= 0 {
		return true
	}
	fc := func(s, d uint8) float64 {
		return (float64(s)*float64(sa) + float64(d)*float64(da)*(1-float64(sa)/255)) / fa
	}
	return near(got.R, fc(src.R, dst.R)) && near(got.G, fc(src.G, dst.G)) && near(got.B, fc(src.B, dst.B))
}

type refCompositor struct {
	cw, ch  int
	canvas  *image.NRGBA
	pos     int
	prevBG  bool
	prevRct image.Rectangle
}

func newRefCompositor(cw, ch int) *refCompositor {
	return &refCompositor{cw: cw, ch: ch, canvas: image.NewNRGBA(image.Rect(0, 0, cw, ch))}
}

func (rc *refCompositor) reset() {
	for i := range rc.canvas.Pix {
		rc.canvas.Pix[i] = 0
	}
	rc.pos, rc.prevBG, rc.prevRct = 0, false, image.Rectangle{}
}

// step composites frame f; got is the implementation's snapshot. Blended pixels
// are validated against got with the tolerance of blendOK and then *adopted* from
// got, so that an accepted rounding choice does not accumulate into later frames.
func (rc *refCompositor) step(f C09Frame, src *image.NRGBA, got *image.NRGBA) string {
	bounds := image.Rect(0, 0, rc.cw, rc.ch)
	if rc.prevBG {
		r := rc.prevRct.Intersect(bounds)
		for y := r.Min.Y; y < r.Max.Y; y++ {
			for x := r.Min.X; x < r.Max.X; x++ {
				rc.canvas.SetNRGBA(x, y, color.NRGBA{})
			}
		}
	}
	fr := image.Rect(f.X, f.Y, f.X+f.W, f.Y+f.H)
	r := fr.Intersect(bounds)
	for y := r.Min.Y; y < r.Max.Y; y++ {
		for x := r.Min.X; x < r.Max.X; x++ {
			s := src.NRGBAAt(x-f.X, y-f.Y)
			if !f.Blend {
				rc.canvas.SetNRGBA(x, y, s)
				continue
			}
			d := rc.canvas.NRGBAAt(x, y)
			g := got.NRGBAAt(x, y)
			if !blendOK(s, d, g) {
				return fmt.Sprintf("pixel (%d,%d): blending source %v over canvas %v gave %v, which is neither libwebp's integer result nor within 1 of the specification's formula", x, y, s, d, g)
			}
			rc.canvas.SetNRGBA(x, y, g)
		}
	}
	rc.prevBG, rc.prevRct = f.DisposeBG, fr
	rc.pos++
	// everything must now be equal
	if got.Rect.Dx() != rc.cw || got.Rect.Dy() != rc.ch {
		return fmt.Sprintf("snapshot size %v, canvas %dx%d", got.Rect, rc.cw, rc.ch)
	}
	for y := 0; y < rc.ch; y++ {
		for x := 0; x < rc.cw; x++ {
			if a, b := rc.canvas.NRGBAAt(x, y), got.NRGBAAt(x, y); a != b {
				where := "outside the frame rectangle"
				if image.Pt(x, y).In(r) {
					where = "inside the frame rectangle"
				}
				return fmt.Sprintf("pixel (%d,%d) %s: specification gives %v, NextFrame returned %v", x, y, where, a, b)
			}
		}
	}
	return ""
}

func buildAnimation(p *C09Params) (*animation.Animation, []*image.NRGBA) {
	anim := &animation.Animation{CanvasWidth: p.CW, CanvasHeight: p.CH}
	var srcs []*image.NRGBA
	for _, f := range p.Frames {
		img := c09FrameImage(f)
		srcs = append(srcs, ToNRGBA(img))
		fr := animation.Frame{Image: img, Duration: time.Duration(f.Dur) * time.Millisecond, OffsetX: f.X, OffsetY: f.Y, HasAlpha: f.HasAlpha}
		if f.Blend {
			fr.Blend = animation.BlendAlpha
		} else {
			fr.Blend = animation.BlendNone
		}
		if f.DisposeBG {
			fr.Dispose = animation.DisposeBackground
		} else {
			fr.Dispose = animation.DisposeNone
		}
		anim.Frames = append(anim.Frames, fr)
	}
	return anim, srcs
}

// driveDecoder runs the op history on one decoder against one reference compositor.
func driveDecoder(p *C09Params, anim *animation.Animation, srcs []*image.NRGBA, ops []string, x *X) (string, string) {
	dec, err := animation.NewAnimDecoder(anim)
	if err != nil {
		return "new-decoder", err.Error()
	}
	rc := newRefCompositor(p.CW, p.CH)
	type snap struct {
		img    *image.NRGBA
		digest string
	}
	var snaps []snap
	var last *image.NRGBA
	for _, op := range ops {
		switch op {
		case "yield":
			vsim.Yield(vsim.OpUser, 0)
		case "hasnext":
			if dec.HasNext() != (rc.pos < len(p.Frames)) {
				return "hasnext", fmt.Sprintf("HasNext()=%v at position %d of %d", dec.HasNext(), rc.pos, len(p.Frames))
			}
		case "reset":
			dec.Reset()
			rc.reset()
			x.Count("resets", 1)
		case "scribble":
			if last != nil {
				for i := range last.Pix {
					last.Pix[i] ^= 0x5a
				}
				// the client owns the snapshot: forget its digest
				for i := range snaps {
					if snaps[i].img == last {
						snaps[i].digest = DigestImage(last)
					}
				}
				x.Count("snapshots_scribbled", 1)
			}
		case "next":
			if rc.pos >= len(p.Frames) {
				if _, _, err := dec.NextFrame(); err == nil {
					return "next-past-end", "NextFrame succeeded past the last frame"
				}
				continue
			}
			f := p.Frames[rc.pos]
			got, dur, err := dec.NextFrame()
			if err != nil {
				return "next-error", fmt.Sprintf("NextFrame at %d: %v", rc.pos, err)
			}
			if int(dur/time.Millisecond) != f.Dur {
				return "duration", fmt.Sprintf("frame %d duration %v, want %d ms", rc.pos, dur, f.Dur)
			}
			idx := rc.pos
			if d := rc.step(f, srcs[idx], got); d != "" {
				kind := "composite"
				if f.Blend {
					kind = "composite-blend"
				}
				return kind, fmt.Sprintf("frame %d (%dx%d at (%d,%d) blend=%v dispose_bg=%v has_alpha=%v): %s", idx, f.W, f.H, f.X, f.Y, f.Blend, f.DisposeBG, f.HasAlpha, d)
			}
			x.Count("frames_composited", 1)
			if f.Blend {
				x.Count("frames_blended", 1)
			}
			snaps = append(snaps, snap{got, DigestImage(got)})
			last = got
		}
		// snapshots already returned are not modified by later calls
		for i, s := range snaps {
			if DigestImage(s.img) != s.digest {
				return "snapshot-mutated", fmt.Sprintf("snapshot #%d was modified by a later %s call", i, op)
			}
		}
	}
	return "", ""
}

func (propC09) Execute(pp any, x *X) *Violation {
	p := pp.(*C09Params)
	anim, srcs := buildAnimation(p)
	var sig, detail string
	w := x.Explore(p.Sched.Config(), func() {
		if !p.Two {
			sig, detail = driveDecoder(p, anim, srcs, p.Ops, x)
			return
		}
		// two decoders over the same Animation, interleaved by the scheduler at the
		// "yield" operations: they must share nothing mutable
		var wg ssync.WaitGroup
		var s2, d2 string
		wg.Add(1)
		vsim.Go(2, func() {
			defer wg.Done()
			ops2 := append([]string{"yield"}, p.Ops...)
			for i := range ops2 {
				if i%2 == 1 {
					ops2 = append(ops2[:i], append([]string{"yield"}, ops2[i:]...)...)
				}
			}
			s2, d2 = driveDecoder(p, anim, srcs, ops2, x)
		})
		ops1 := []string{}
		for _, op := range p.Ops {
			ops1 = append(ops1, op, "yield")
		}
		sig, detail = driveDecoder(p, anim, srcs, ops1, x)
		wg.Wait()
		if sig == "" {
			sig, detail = s2, d2
		}
	})
	hh := hashString(fmt.Sprint(p.Frames, p.Ops, p.CW, p.CH))
	x.Case(hh, len(p.Frames) >= 2)
	x.Workload(hh)
	x.Count("histories", 1)
	if p.Two {
		x.Count("histories_with_two_decoders", 1)
	}
	x.Sample(map[string]any{"canvas": fmt.Sprintf("%dx%d", p.CW, p.CH), "frames": p.Frames, "ops": p.Ops, "two_decoders": p.Two})
	if v := x.WorldViolation("C09", w); v != nil {
		return v
	}
	if sig != "" {
		return &Violation{Prop: "C09", Sig: sig, Detail: fmt.Sprintf("canvas %dx%d, %d frames, ops %v: %s", p.CW, p.CH, len(p.Frames), p.Ops, detail)}
	}
	return nil
}

func (propC09) Describe() PropDoc {
	return PropDoc{
		Rule: "one run = one programmatically built Animation (canvas 1-24 px, 1-10 frames with rectangles inside / partly outside / fully outside the canvas, blend x dispose, HasAlpha flag, pixel alphas concentrated on 0, 1, 127, 128, 254, 255 and random, frame images as NRGBA / RGBA / sub-image views) and one seeded history of NextFrame / HasNext / Reset / client-scribbles-on-its-snapshot operations on AnimDecoder; 25 % of runs drive two decoders over the same Animation from two tasks interleaved by the scheduler. distinct = distinct (animation, history); non-trivial = at least two frames.",
		Assumptions: []string{
			"a frame whose HasAlpha flag is false has opaque content (the flag is derived from the bitstream; a VP8/VP8L stream without alpha decodes to alpha 255)",
			"blend arithmetic: a pixel is accepted if it equals libwebp's integer formula or is within +-1 per channel of the specification's real-valued formula (the specification does not fix rounding); the 2^32-pair enumeration of the blend function is not claimed",
			"sampling over animations and histories: a clean batch is evidence, not proof",
		},
		Real:      []string{"animation.AnimDecoder (isKeyFrame, NextFrame, compositeFrame, applyDispose, Reset), animation.Frame"},
		Simulated: []string{"history of calls on the stateful decoder; interleaving of two decoder clients"},
		Reference: []string{"an 80-line compositor written from the container specification, without any key-frame shortcut"},
		MustReach: []string{"frames_composited", "frames_blended", "resets", "snapshots_scribbled", "histories_with_two_decoders"},
	}
}
