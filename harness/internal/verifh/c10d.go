package verifh

import (
	"fmt"
	"image"

	"github.com/deepteams/webp/animation"
)

// C10 workload D: parallel frame decoding of an animation, some frames corrupted
// so that workers return errors while others succeed.

var animFileMemo = map[string][]byte{}

// AnimFileFor encodes the spec alone (canonical schedule, worker count 1). Must be
// called outside any world.
func AnimFileFor(a AnimSpec) []byte {
	k := a.String() + fmt.Sprint(a.Seed)
	if b, ok := animFileMemo[k]; ok {
		return b
	}
	var data []byte
	x := &X{Stats: NewStats(), Quiet: true}
	x.Solo(1, func() {
		in, _ := a.Canvases()
		res := EncodeAnim(a, in, WriteFault{})
		if res.AddErr == nil && res.CloseErr == nil {
			data = res.Data
		}
	})
	if len(animFileMemo) > 500 {
		animFileMemo = map[string][]byte{}
	}
	animFileMemo[k] = data
	return data
}

func corruptFrames(anim *animation.Animation, which []int) {
	for _, i := range which {
		if i < len(anim.Frames) && len(anim.Frames[i].BitstreamData) > 6 {
			b := append([]byte{}, anim.Frames[i].BitstreamData...)
			// damage the bitstream header so that the frame decoder fails
			b[0] ^= 0xff
			b[3] ^= 0xff
			anim.Frames[i].BitstreamData = b
		}
	}
}

func execC10D(p *C10Params, x *X) *Violation {
	op := p.Anim
	data := AnimFileFor(op.Spec)
	if data == nil {
		x.Count("anim_encode_refused", 1)
		return nil
	}
	// reference: each frame decoded alone, canonical, same worker count
	type ref struct {
		digest string
		err    bool
	}
	var refs []ref
	var refErr error
	ws := x.Solo(p.Sched.Procs, func() {
		anim, err := animation.DecodeBytes(data)
		if err != nil {
			refErr = err
			return
		}
		corruptFrames(anim, op.Corrupt)
		for i := range anim.Frames {
			f := &anim.Frames[i]
			img, err := animation.FrameDecoderFunc(f.BitstreamData, f.AlphaData)
			if err != nil {
				refs = append(refs, ref{err: true})
			} else {
				refs = append(refs, ref{digest: DigestImage(img)})
			}
		}
	})
	if v := x.WorldViolation("C10", ws); v != nil {
		v.Sig = "solo-" + v.Sig
		return v
	}
	if refErr != nil {
		x.Count("anim_file_unreadable", 1)
		return nil
	}
	var got []ref
	var parErr error
	var nframes int
	w := x.Explore(p.Sched.Config(), func() {
		anim, err := animation.DecodeBytes(data)
		if err != nil {
			parErr = err
			return
		}
		corruptFrames(anim, op.Corrupt)
		nframes = len(anim.Frames)
		parErr = anim.DecodeFramesParallel()
		for i := range anim.Frames {
			if anim.Frames[i].Image == nil {
				got = append(got, ref{err: true})
			} else {
				got = append(got, ref{digest: DigestImage(anim.Frames[i].Image.(image.Image))})
			}
		}
	})
	x.Case(w.Hash, w.Multi > 0)
	x.Count("workload_D", 1)
	if w.Multi > 0 {
		x.Count("runs_with_concurrency", 1)
	}
	x.Count("parallel_decode_frames", int64(nframes))
	x.Sample(map[string]any{"workload": "D", "sched": p.Sched, "anim": op.Spec.String(), "corrupt_frames": op.Corrupt, "steps": w.Steps, "tasks": w.NTasks()})
	if v := x.WorldViolation("C10", w); v != nil {
		return v
	}
	if x.Inconclusive != "" {
		return nil
	}
	anyErr := false
	for _, r := range refs {
		if r.err {
			anyErr = true
		}
	}
	if anyErr {
		x.Count("parallel_decode_with_failing_frames", 1)
	}
	if (parErr != nil) != anyErr {
		return &Violation{Prop: "C10", Sig: "parallel-decode:error-ness", Detail: fmt.Sprintf("%s: DecodeFramesParallel returned err=%v, decoding each frame alone: some frame fails=%v", op.Spec, parErr, anyErr)}
	}
	if len(got) != len(refs) {
		return &Violation{Prop: "C10", Sig: "parallel-decode:frame-count", Detail: fmt.Sprintf("%d vs %d frames", len(got), len(refs))}
	}
	if nframes > 2 { // <=2 frames fall back to sequential DecodeFrames, which stops at the first error
		for i := range refs {
			if refs[i].err {
				continue
			}
			if got[i].err || got[i].digest != refs[i].digest {
				return &Violation{Prop: "C10", Sig: "parallel-decode:frame-pixels", Detail: fmt.Sprintf("%s: frame %d decoded by DecodeFramesParallel under the explored schedule -> %+v, alone -> %+v", op.Spec, i, got[i], refs[i])}
			}
		}
	}
	return nil
}
