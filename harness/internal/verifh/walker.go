package verifh

import (
	"encoding/binary"
	"errors"
	"fmt"
)

// A RIFF/WebP walker written from the WebP container specification
// (developers.google.com/speed/webp/docs/riff_container), independent of the
// package's two parsers. Strict mode = what a conformant *writer* must produce.

type WChunk struct {
	FourCC string
	Off    int // offset of the chunk header in the file
	Size   int // payload size
	Data   []byte
}

type WFrame struct {
	X, Y, W, H  int
	Duration    int
	Blend       bool // true = alpha-blend (flag bit clear), false = do not blend
	DisposeBG   bool
	Alph        []byte // ALPH payload or nil
	Bitstream   []byte // VP8 / VP8L payload
	Lossless    bool
	BsW, BsH    int
	BsAlpha     bool // VP8L alpha_is_used
	Unknown     []WChunk
}

type WFile struct {
	Format   string // "lossy", "lossless", "extended"
	CanvasW  int
	CanvasH  int
	Flags    byte
	HasVP8X  bool
	Animated bool
	Loop     int
	Bg       uint32
	ICC      []byte
	EXIF     []byte
	XMP      []byte
	HasICC, HasEXIF, HasXMP bool
	Frames   []WFrame
	Chunks   []WChunk // top level, in order
	Unknown  []WChunk
	Trailing int // bytes after the RIFF chunk
}

const (
	flagAnim  = 0x02
	flagXMP   = 0x04
	flagEXIF  = 0x08
	flagAlpha = 0x10
	flagICC   = 0x20
)

func le24(b []byte) int { return int(b[0]) | int(b[1])<<8 | int(b[2])<<16 }

// readChunks splits buf into chunks (strict padding rules).
func readChunks(buf []byte, base int) ([]WChunk, error) {
	var out []WChunk
	p := 0
	for p < len(buf) {
		if len(buf)-p < 8 {
			return nil, fmt.Errorf("walker: %d stray bytes at offset %d (no room for a chunk header)", len(buf)-p, base+p)
		}
		sz := int(binary.LittleEndian.Uint32(buf[p+4:]))
		if sz < 0 || sz > len(buf)-p-8 {
			return nil, fmt.Errorf("walker: chunk %q at offset %d declares %d bytes, only %d remain", string(buf[p:p+4]), base+p, sz, len(buf)-p-8)
		}
		c := WChunk{FourCC: string(buf[p : p+4]), Off: base + p, Size: sz, Data: buf[p+8 : p+8+sz]}
		p += 8 + sz
		if sz&1 == 1 {
			if p >= len(buf) {
				return nil, fmt.Errorf("walker: chunk %q at offset %d has odd size %d and no padding byte", c.FourCC, c.Off, sz)
			}
			if buf[p] != 0 {
				return nil, fmt.Errorf("walker: padding byte after chunk %q at offset %d is %#x, must be 0", c.FourCC, c.Off, buf[p])
			}
			p++
		}
		out = append(out, c)
	}
	return out, nil
}

func parseVP8Hdr(d []byte) (w, h int, err error) {
	if len(d) < 10 {
		return 0, 0, errors.New("walker: VP8 payload shorter than 10 bytes")
	}
	tag := uint32(d[0]) | uint32(d[1])<<8 | uint32(d[2])<<16
	if tag&1 != 0 {
		return 0, 0, errors.New("walker: VP8 frame is not a key frame")
	}
	if (tag>>1)&7 > 3 {
		return 0, 0, fmt.Errorf("walker: VP8 version %d > 3", (tag>>1)&7)
	}
	if (tag>>4)&1 == 0 {
		return 0, 0, errors.New("walker: VP8 show_frame is 0")
	}
	part0 := int(tag >> 5)
	if d[3] != 0x9d || d[4] != 0x01 || d[5] != 0x2a {
		return 0, 0, errors.New("walker: VP8 start code missing")
	}
	if part0 > len(d)-10 {
		return 0, 0, fmt.Errorf("walker: VP8 first partition length %d exceeds payload (%d bytes after the header)", part0, len(d)-10)
	}
	w = int(binary.LittleEndian.Uint16(d[6:])) & 0x3fff
	h = int(binary.LittleEndian.Uint16(d[8:])) & 0x3fff
	if w == 0 || h == 0 {
		return 0, 0, errors.New("walker: VP8 zero dimension")
	}
	if err := checkVP8Partitions(d, part0); err != nil {
		return 0, 0, err
	}
	return w, h, nil
}

// vp8Bool is the boolean entropy decoder of RFC 6386 section 7, used only to read
// the frame header fields that precede the token-partition count.
type vp8Bool struct {
	data  []byte
	pos   int
	value uint32
	rng   uint32
	bits  int
}

func newVP8Bool(data []byte) *vp8Bool {
	b := &vp8Bool{data: data, rng: 255}
	for i := 0; i < 2; i++ {
		b.value <<= 8
		if b.pos < len(data) {
			b.value |= uint32(data[b.pos])
		}
		b.pos++
	}
	return b
}

func (b *vp8Bool) readBool(prob uint32) uint32 {
	split := 1 + (((b.rng - 1) * prob) >> 8)
	bigSplit := split << 8
	var ret uint32
	if b.value >= bigSplit {
		ret = 1
		b.rng -= split
		b.value -= bigSplit
	} else {
		b.rng = split
	}
	for b.rng < 128 {
		b.value <<= 1
		b.rng <<= 1
		b.bits++
		if b.bits == 8 {
			b.bits = 0
			if b.pos < len(b.data) {
				b.value |= uint32(b.data[b.pos])
			}
			b.pos++
		}
	}
	return ret
}

func (b *vp8Bool) lit(n int) uint32 {
	var v uint32
	for i := 0; i < n; i++ {
		v = v<<1 | b.readBool(128)
	}
	return v
}

func (b *vp8Bool) optSigned(n int) {
	if b.lit(1) == 1 {
		b.lit(n)
		b.lit(1)
	}
}

// checkVP8Partitions reads the key-frame header up to the token-partition count
// (RFC 6386 section 9.2-9.5) and checks the partition layout (section 9.5): the
// size table and every partition must fit, and the last partition must start before
// the end of the data (a reference decoder refuses a frame whose last partition is
// empty).
func checkVP8Partitions(d []byte, part0 int) error {
	if part0 < 1 {
		return errors.New("walker: VP8 first partition is empty")
	}
	b := newVP8Bool(d[10 : 10+part0])
	b.lit(1) // color space
	b.lit(1) // clamping type
	if b.lit(1) == 1 { // segmentation enabled
		updMap := b.lit(1)
		if b.lit(1) == 1 { // update segment feature data
			b.lit(1)
			for i := 0; i < 4; i++ {
				b.optSigned(7)
			}
			for i := 0; i < 4; i++ {
				b.optSigned(6)
			}
		}
		if updMap == 1 {
			for i := 0; i < 3; i++ {
				if b.lit(1) == 1 {
					b.lit(8)
				}
			}
		}
	}
	b.lit(1) // filter type
	b.lit(6) // level
	b.lit(3) // sharpness
	if b.lit(1) == 1 { // loop filter adjustments
		if b.lit(1) == 1 {
			for i := 0; i < 8; i++ {
				b.optSigned(6)
			}
		}
	}
	nparts := 1 << b.lit(2)
	if b.pos > part0+2 {
		return errors.New("walker: VP8 first partition ends inside the frame header")
	}
	p := 10 + part0
	tbl := 3 * (nparts - 1)
	if p+tbl > len(d) {
		return fmt.Errorf("walker: VP8 partition size table (%d partitions) does not fit", nparts)
	}
	start := p + tbl
	for i := 0; i < nparts-1; i++ {
		sz := int(d[p+3*i]) | int(d[p+3*i+1])<<8 | int(d[p+3*i+2])<<16
		if start+sz > len(d) {
			return fmt.Errorf("walker: VP8 token partition %d of %d (%d bytes) runs past the end of the frame", i, nparts, sz)
		}
		start += sz
	}
	if start >= len(d) {
		return fmt.Errorf("walker: VP8 last token partition (%d of %d) is empty", nparts-1, nparts)
	}
	return nil
}

func parseVP8LHdr(d []byte) (w, h int, alpha bool, err error) {
	if len(d) < 5 {
		return 0, 0, false, errors.New("walker: VP8L payload shorter than 5 bytes")
	}
	if d[0] != 0x2f {
		return 0, 0, false, errors.New("walker: VP8L signature missing")
	}
	bits := binary.LittleEndian.Uint32(d[1:])
	w = int(bits&0x3fff) + 1
	h = int((bits>>14)&0x3fff) + 1
	alpha = (bits>>28)&1 == 1
	if (bits>>29)&7 != 0 {
		return 0, 0, false, fmt.Errorf("walker: VP8L version %d != 0", (bits>>29)&7)
	}
	return w, h, alpha, nil
}

// frameFromChunks builds a frame from image-data chunks ([ALPH] VP8 | VP8L + unknown).
func frameFromChunks(cs []WChunk) (WFrame, error) {
	var f WFrame
	seenBS := false
	for _, c := range cs {
		switch c.FourCC {
		case "ALPH":
			if seenBS {
				return f, errors.New("walker: ALPH after the bitstream chunk")
			}
			if f.Alph != nil {
				return f, errors.New("walker: two ALPH chunks in one frame")
			}
			if len(c.Data) < 1 {
				return f, errors.New("walker: empty ALPH chunk")
			}
			f.Alph = c.Data
		case "VP8 ":
			if seenBS {
				return f, errors.New("walker: two bitstream chunks in one frame")
			}
			w, h, err := parseVP8Hdr(c.Data)
			if err != nil {
				return f, err
			}
			f.Bitstream, f.BsW, f.BsH, seenBS = c.Data, w, h, true
		case "VP8L":
			if seenBS {
				return f, errors.New("walker: two bitstream chunks in one frame")
			}
			if f.Alph != nil {
				return f, errors.New("walker: ALPH chunk with a VP8L bitstream")
			}
			w, h, a, err := parseVP8LHdr(c.Data)
			if err != nil {
				return f, err
			}
			f.Bitstream, f.BsW, f.BsH, f.BsAlpha, f.Lossless, seenBS = c.Data, w, h, a, true, true
		case "VP8X", "ANIM", "ANMF", "ICCP", "EXIF", "XMP ":
			return f, fmt.Errorf("walker: chunk %q inside frame data", c.FourCC)
		default:
			f.Unknown = append(f.Unknown, c)
		}
	}
	if !seenBS {
		return f, errors.New("walker: frame without bitstream chunk")
	}
	if f.Alph != nil {
		hdr := f.Alph[0]
		if hdr&3 > 1 {
			return f, fmt.Errorf("walker: ALPH compression method %d", hdr&3)
		}
		if hdr&3 == 0 && len(f.Alph)-1 < f.BsW*f.BsH {
			return f, fmt.Errorf("walker: raw ALPH payload %d bytes < %dx%d", len(f.Alph)-1, f.BsW, f.BsH)
		}
	}
	return f, nil
}

// Walk validates data as exactly one well-formed WebP file (strict: what a writer
// must produce) and returns its structure.
func Walk(data []byte) (*WFile, error) {
	if len(data) < 12 {
		return nil, errors.New("walker: shorter than a RIFF header")
	}
	if string(data[0:4]) != "RIFF" || string(data[8:12]) != "WEBP" {
		return nil, errors.New("walker: not RIFF/WEBP")
	}
	size := int(binary.LittleEndian.Uint32(data[4:]))
	if size&1 == 1 {
		return nil, fmt.Errorf("walker: RIFF size %d is odd", size)
	}
	if size < 4 {
		return nil, fmt.Errorf("walker: RIFF size %d < 4", size)
	}
	if size+8 > len(data) {
		return nil, fmt.Errorf("walker: RIFF size %d + 8 exceeds file length %d", size, len(data))
	}
	f := &WFile{Trailing: len(data) - (size + 8)}
	chunks, err := readChunks(data[12:8+size], 12)
	if err != nil {
		return nil, err
	}
	if len(chunks) == 0 {
		return nil, errors.New("walker: no chunks")
	}
	f.Chunks = chunks
	switch chunks[0].FourCC {
	case "VP8 ", "VP8L":
		fr, err := frameFromChunks(chunks[:1])
		if err != nil {
			return nil, err
		}
		if len(chunks) > 1 {
			// simple formats consist of exactly one chunk; readers may ignore the rest,
			// a writer must not emit it
			return nil, fmt.Errorf("walker: simple-format file with %d extra chunk(s) after the image chunk", len(chunks)-1)
		}
		fr.W, fr.H = fr.BsW, fr.BsH
		fr.Blend = true
		f.Frames = []WFrame{fr}
		f.CanvasW, f.CanvasH = fr.BsW, fr.BsH
		if fr.Lossless {
			f.Format = "lossless"
		} else {
			f.Format = "lossy"
		}
		return f, nil
	case "VP8X":
	default:
		return nil, fmt.Errorf("walker: first chunk is %q", chunks[0].FourCC)
	}
	// extended
	f.Format = "extended"
	f.HasVP8X = true
	x := chunks[0].Data
	if len(x) != 10 {
		return nil, fmt.Errorf("walker: VP8X payload is %d bytes, must be 10", len(x))
	}
	f.Flags = x[0]
	if x[0]&0xC1 != 0 || x[1] != 0 || x[2] != 0 || x[3] != 0 {
		return nil, fmt.Errorf("walker: VP8X reserved bits set (%#x %#x %#x %#x)", x[0], x[1], x[2], x[3])
	}
	f.CanvasW, f.CanvasH = le24(x[4:])+1, le24(x[7:])+1
	if uint64(f.CanvasW)*uint64(f.CanvasH) > 1<<32-1 {
		return nil, errors.New("walker: canvas area exceeds 2^32-1")
	}
	f.Animated = f.Flags&flagAnim != 0
	// order: VP8X [ICCP] [ANIM] image-data [EXIF] [XMP ] ; unknown chunks anywhere
	const (
		stStart = iota
		stICC
		stANIM
		stImage
		stEXIF
		stXMP
	)
	state := stStart
	var still []WChunk
	for _, c := range chunks[1:] {
		switch c.FourCC {
		case "VP8X":
			return nil, errors.New("walker: second VP8X chunk")
		case "ICCP":
			if state >= stICC {
				return nil, errors.New("walker: ICCP chunk out of order")
			}
			state = stICC
			f.ICC, f.HasICC = c.Data, true
		case "ANIM":
			if state >= stANIM {
				return nil, errors.New("walker: ANIM chunk out of order")
			}
			state = stANIM
			if !f.Animated {
				return nil, errors.New("walker: ANIM chunk without animation flag")
			}
			if len(c.Data) != 6 {
				return nil, fmt.Errorf("walker: ANIM payload is %d bytes, must be 6", len(c.Data))
			}
			f.Bg = binary.LittleEndian.Uint32(c.Data)
			f.Loop = int(binary.LittleEndian.Uint16(c.Data[4:]))
		case "ANMF":
			if state > stImage {
				return nil, errors.New("walker: ANMF chunk after metadata")
			}
			if !f.Animated {
				return nil, errors.New("walker: ANMF chunk without animation flag")
			}
			if state < stANIM {
				return nil, errors.New("walker: ANMF chunk before ANIM")
			}
			state = stImage
			if len(c.Data) < 16 {
				return nil, errors.New("walker: ANMF payload shorter than 16 bytes")
			}
			sub, err := readChunks(c.Data[16:], c.Off+8+16)
			if err != nil {
				return nil, fmt.Errorf("in ANMF at %d: %w", c.Off, err)
			}
			fr, err := frameFromChunks(sub)
			if err != nil {
				return nil, fmt.Errorf("in ANMF at %d: %w", c.Off, err)
			}
			fr.X, fr.Y = 2*le24(c.Data[0:]), 2*le24(c.Data[3:])
			fr.W, fr.H = le24(c.Data[6:])+1, le24(c.Data[9:])+1
			fr.Duration = le24(c.Data[12:])
			fl := c.Data[15]
			if fl&0xFC != 0 {
				return nil, fmt.Errorf("walker: ANMF reserved bits set (%#x)", fl)
			}
			fr.Blend = fl&2 == 0
			fr.DisposeBG = fl&1 == 1
			if fr.W != fr.BsW || fr.H != fr.BsH {
				return nil, fmt.Errorf("walker: ANMF frame size %dx%d differs from its bitstream %dx%d", fr.W, fr.H, fr.BsW, fr.BsH)
			}
			if fr.X+fr.W > f.CanvasW || fr.Y+fr.H > f.CanvasH {
				return nil, fmt.Errorf("walker: frame %dx%d at (%d,%d) exceeds canvas %dx%d", fr.W, fr.H, fr.X, fr.Y, f.CanvasW, f.CanvasH)
			}
			f.Frames = append(f.Frames, fr)
		case "ALPH", "VP8 ", "VP8L":
			if f.Animated {
				return nil, fmt.Errorf("walker: bare %q chunk in an animated file", c.FourCC)
			}
			if state > stImage {
				return nil, fmt.Errorf("walker: %q chunk after metadata", c.FourCC)
			}
			state = stImage
			still = append(still, c)
		case "EXIF":
			if state >= stEXIF {
				return nil, errors.New("walker: EXIF chunk out of order")
			}
			if state < stImage {
				return nil, errors.New("walker: EXIF chunk before image data")
			}
			state = stEXIF
			f.EXIF, f.HasEXIF = c.Data, true
		case "XMP ":
			if state >= stXMP {
				return nil, errors.New("walker: XMP chunk out of order")
			}
			if state < stImage {
				return nil, errors.New("walker: XMP chunk before image data")
			}
			state = stXMP
			f.XMP, f.HasXMP = c.Data, true
		default:
			f.Unknown = append(f.Unknown, c)
			if !f.Animated && state == stImage {
				still = append(still, c)
			}
		}
	}
	if f.Animated {
		if state < stANIM {
			return nil, errors.New("walker: animation flag without ANIM chunk")
		}
	} else {
		if len(still) == 0 {
			return nil, errors.New("walker: extended still without image data")
		}
		fr, err := frameFromChunks(still)
		if err != nil {
			return nil, err
		}
		fr.W, fr.H = fr.BsW, fr.BsH
		fr.Blend = true
		if fr.BsW != f.CanvasW || fr.BsH != f.CanvasH {
			return nil, fmt.Errorf("walker: canvas %dx%d differs from the image bitstream %dx%d", f.CanvasW, f.CanvasH, fr.BsW, fr.BsH)
		}
		f.Frames = []WFrame{fr}
	}
	// flags <=> chunks
	if (f.Flags&flagICC != 0) != f.HasICC {
		return nil, fmt.Errorf("walker: ICC flag %v but ICCP chunk present %v", f.Flags&flagICC != 0, f.HasICC)
	}
	if (f.Flags&flagEXIF != 0) != f.HasEXIF {
		return nil, fmt.Errorf("walker: EXIF flag %v but EXIF chunk present %v", f.Flags&flagEXIF != 0, f.HasEXIF)
	}
	if (f.Flags&flagXMP != 0) != f.HasXMP {
		return nil, fmt.Errorf("walker: XMP flag %v but XMP chunk present %v", f.Flags&flagXMP != 0, f.HasXMP)
	}
	anyAlpha := false
	for _, fr := range f.Frames {
		if fr.Alph != nil || (fr.Lossless && fr.BsAlpha) {
			anyAlpha = true
		}
	}
	if anyAlpha && f.Flags&flagAlpha == 0 {
		return nil, errors.New("walker: a frame carries alpha but the VP8X alpha flag is clear")
	}
	return f, nil
}

// FrameHasAlphaData reports whether the frame can carry transparency.
func (fr *WFrame) HasAlphaData() bool { return fr.Alph != nil || (fr.Lossless && fr.BsAlpha) }
