package verifh

import (
	"crypto/sha256"
	"encoding/binary"
	"fmt"
	"image"
	"image/color"
)

// ImgSpec names one seeded workload image. This is ordinary generated input (not
// a simulated dimension); evidence counts it separately from schedules/faults.
type ImgSpec struct {
	Family string `json:"fam"`   // flat hgrad vgrad dgrad smooth noise pal text
	W      int    `json:"w"`
	H      int    `json:"h"`
	Seed   uint64 `json:"seed"`
	Colors int    `json:"colors,omitempty"` // pal: number of colours
	Runs   bool   `json:"runs,omitempty"`   // pal: run-structured instead of random
	Alpha  string `json:"alpha"`            // opaque transparent blocks stripes single levels gradient noise
	Levels int    `json:"levels,omitempty"` // alpha levels for "levels"
	Type   string `json:"type"`             // nrgba rgba gray paletted ycbcr nrgba64 sub
}

func (s ImgSpec) String() string {
	return fmt.Sprintf("%s/%dx%d/%s/%s/c%d/s%x", s.Family, s.W, s.H, s.Alpha, s.Type, s.Colors, s.Seed&0xffff)
}

var imgFamilies = []string{"flat", "hgrad", "vgrad", "dgrad", "smooth", "noise", "pal", "text", "regions", "patch", "hole"}
var alphaPatterns = []string{"opaque", "transparent", "blocks", "stripes", "single", "levels", "gradient", "noise"}

// GenImgSpec draws a spec. maxSide bounds the size; wantAlpha: 0 never, 1 maybe, 2 always.
func GenImgSpec(r *RNG, minSide, maxSide int, wantAlpha int) ImgSpec {
	s := ImgSpec{Seed: r.Next(), Type: "nrgba", Alpha: "opaque"}
	s.Family = imgFamilies[r.Intn(len(imgFamilies))]
	s.W = genSide(r, minSide, maxSide)
	s.H = genSide(r, minSide, maxSide)
	if s.Family == "pal" {
		switch r.Intn(6) {
		case 0:
			s.Colors = 1
		case 1:
			s.Colors = 2
		case 2:
			s.Colors = r.Range(3, 4)
		case 3:
			s.Colors = r.Range(5, 16)
		case 4:
			s.Colors = r.Range(17, 256)
		default:
			s.Colors = r.Range(2, 40)
		}
		s.Runs = r.Bool()
	}
	if wantAlpha == 2 || (wantAlpha == 1 && r.Pct(45)) {
		s.Alpha = alphaPatterns[1+r.Intn(len(alphaPatterns)-1)]
		if s.Alpha == "levels" {
			s.Levels = r.Range(3, 8)
		}
	}
	switch r.Intn(12) {
	case 0:
		s.Type = "rgba"
		// premultiplied storage: keep alpha binary so that "the source pixel read as
		// non-premultiplied 8-bit RGBA" is unambiguous
		switch s.Alpha {
		case "levels", "gradient", "noise":
			s.Alpha = "blocks"
		}
	case 1:
		if s.Alpha == "opaque" {
			s.Type = "gray"
		}
	case 2:
		if s.Alpha == "opaque" {
			s.Type = "ycbcr"
		}
	case 3:
		s.Type = "sub"
	case 4:
		if s.Family == "pal" && s.Colors <= 256 {
			s.Type = "paletted"
		}
	case 5:
		s.Type = "nrgba64"
	case 6:
		switch r.Intn(4) {
		case 0:
			s.Type = "nrgba64sub"
		case 1:
			s.Type = "rgbasub"
			switch s.Alpha {
			case "levels", "gradient", "noise", "single":
				s.Alpha = "blocks"
			}
		case 2:
			if s.Alpha == "opaque" {
				s.Type = "graysub"
			}
		default:
			if s.Family == "pal" && s.Colors <= 200 {
				s.Type = "palsub"
			}
		}
	}
	return s
}

// sizes with deliberate hits on macroblock / tile thresholds
var sideHits = []int{1, 2, 3, 7, 8, 15, 16, 17, 31, 32, 33, 47, 48, 49, 63, 64, 65, 79, 80, 81, 95, 96, 97, 127, 128, 129}

func genSide(r *RNG, lo, hi int) int {
	if lo >= hi {
		return lo
	}
	if r.Pct(50) {
		for tries := 0; tries < 8; tries++ {
			v := sideHits[r.Intn(len(sideHits))]
			if v >= lo && v <= hi {
				return v
			}
		}
	}
	return r.Range(lo, hi)
}

// Generate builds the image for a spec.
func Generate(s ImgSpec) image.Image {
	r := NewRNG(s.Seed)
	w, h := s.W, s.H
	leadRun := 0 // pal: the picture starts with this many opaque pixels of palette colour 0 (black)
	pix := image.NewNRGBA(image.Rect(0, 0, w, h))
	base := [3]uint8{uint8(r.Next()), uint8(r.Next()), uint8(r.Next())}
	base2 := [3]uint8{uint8(r.Next()), uint8(r.Next()), uint8(r.Next())}
	// boundary colours: pure black / white / primary colours now and then
	switch r.Intn(12) {
	case 0:
		base = [3]uint8{0, 0, 0}
	case 1:
		base = [3]uint8{255, 255, 255}
	case 2:
		base2 = [3]uint8{0, 0, 0}
	case 3:
		base, base2 = [3]uint8{0, 0, 0}, [3]uint8{255, 255, 255}
	}
	set := func(x, y int, c [3]uint8) {
		o := y*pix.Stride + x*4
		pix.Pix[o], pix.Pix[o+1], pix.Pix[o+2], pix.Pix[o+3] = c[0], c[1], c[2], 255
	}
	lerp := func(t, n int) [3]uint8 {
		if n <= 0 {
			return base
		}
		var c [3]uint8
		for i := 0; i < 3; i++ {
			c[i] = uint8((int(base[i])*(n-t) + int(base2[i])*t) / n)
		}
		return c
	}
	switch s.Family {
	case "flat":
		for y := 0; y < h; y++ {
			for x := 0; x < w; x++ {
				set(x, y, base)
			}
		}
	case "hgrad":
		for y := 0; y < h; y++ {
			for x := 0; x < w; x++ {
				set(x, y, lerp(x, w-1))
			}
		}
	case "vgrad":
		for y := 0; y < h; y++ {
			for x := 0; x < w; x++ {
				set(x, y, lerp(y, h-1))
			}
		}
	case "dgrad":
		for y := 0; y < h; y++ {
			for x := 0; x < w; x++ {
				set(x, y, lerp(x+y, w+h-2))
			}
		}
	case "noise":
		for y := 0; y < h; y++ {
			for x := 0; x < w; x++ {
				v := r.Next()
				set(x, y, [3]uint8{uint8(v), uint8(v >> 8), uint8(v >> 16)})
			}
		}
	case "smooth":
		// low-pass noise: coarse random grid, bilinear interpolation, plus mild noise
		const cell = 8
		gw, gh := w/cell+2, h/cell+2
		grid := make([][3]uint8, gw*gh)
		for i := range grid {
			v := r.Next()
			grid[i] = [3]uint8{uint8(v), uint8(v >> 8), uint8(v >> 16)}
		}
		for y := 0; y < h; y++ {
			for x := 0; x < w; x++ {
				gx, gy := x/cell, y/cell
				fx, fy := x%cell, y%cell
				var c [3]uint8
				for i := 0; i < 3; i++ {
					a := int(grid[gy*gw+gx][i])*(cell-fx) + int(grid[gy*gw+gx+1][i])*fx
					b := int(grid[(gy+1)*gw+gx][i])*(cell-fx) + int(grid[(gy+1)*gw+gx+1][i])*fx
					v := (a*(cell-fy)+b*fy)/(cell*cell) + int(r.Next()%5) - 2
					if v < 0 {
						v = 0
					}
					if v > 255 {
						v = 255
					}
					c[i] = uint8(v)
				}
				set(x, y, c)
			}
		}
	case "pal":
		n := s.Colors
		if n < 1 {
			n = 1
		}
		pal := make([][3]uint8, n)
		for i := range pal {
			v := r.Next()
			pal[i] = [3]uint8{uint8(v), uint8(v >> 8), uint8(v >> 16)}
		}
		blackFirst := r.Pct(30)
		if blackFirst {
			pal[0] = [3]uint8{0, 0, 0}
		}
		if n > 1 && r.Pct(25) {
			pal[n-1] = [3]uint8{255, 255, 255}
		}
		cur := 0
		run := 0
		if blackFirst {
			leadRun = 1 + int(s.Seed%5)
		}
		for y := 0; y < h; y++ {
			for x := 0; x < w; x++ {
				if s.Runs {
					if run == 0 {
						cur = r.Intn(n)
						run = 1 + r.Intn(12)
					}
					run--
				} else {
					cur = r.Intn(n)
				}
				set(x, y, pal[cur])
			}
		}
	case "text":
		for y := 0; y < h; y++ {
			for x := 0; x < w; x++ {
				set(x, y, base)
			}
		}
		// glyph-like strokes
		n := (w*h)/40 + 1
		for i := 0; i < n; i++ {
			x, y := r.Intn(w), r.Intn(h)
			l := 1 + r.Intn(6)
			hor := r.Bool()
			for k := 0; k < l; k++ {
				xx, yy := x, y
				if hor {
					xx += k
				} else {
					yy += k
				}
				if xx < w && yy < h {
					set(xx, yy, base2)
				}
			}
		}
	case "regions":
		// a few large regions aligned to 16 px with very different statistics (many
		// prefix-code groups, tile-map corner cases)
		kinds := []int{r.Intn(4), r.Intn(4), r.Intn(4), r.Intn(4), r.Intn(4), r.Intn(4)}
		cols := [][3]uint8{base, base2, {uint8(r.Next()), uint8(r.Next()), uint8(r.Next())}}
		split := r.Intn(3) // 0 horizontal bands, 1 quadrants, 2 vertical bands
		band := 16 * (1 + r.Intn(4))
		for y := 0; y < h; y++ {
			for x := 0; x < w; x++ {
				var reg int
				switch split {
				case 0:
					reg = (y / band) % 6
				case 1:
					reg = (x/band)%2 + 2*((y/band)%3)
				default:
					reg = (x / band) % 6
				}
				switch kinds[reg] {
				case 0:
					set(x, y, cols[reg%3])
				case 1:
					v := r.Next()
					set(x, y, [3]uint8{uint8(v), uint8(v >> 8), uint8(v >> 16)})
				case 2:
					set(x, y, lerp(x%64, 63))
				default:
					set(x, y, cols[(x/3+y/5)%3])
				}
			}
		}
	case "hole":
		// textured everywhere except one or two flat macroblock-aligned blocks
		for y := 0; y < h; y++ {
			for x := 0; x < w; x++ {
				v := r.Next()
				set(x, y, [3]uint8{uint8(v), uint8(v >> 8), uint8(v >> 16)})
			}
		}
		for k := 0; k < 1+r.Intn(2); k++ {
			// a strip two or three macroblocks long whose content continues exactly
			// along the strip (stripes across it): the later blocks are predicted
			// perfectly from the first one
			bx, by := 16*r.Intn(imax(1, (w+15)/16)), 16*r.Intn(imax(1, (h+15)/16))
			bw, bh := 16, 16*r.Range(2, 3)
			vertical := r.Bool()
			if !vertical {
				bw, bh = bh, bw
			}
			amp := uint8(r.Range(1, 6))
			for y := by; y < by+bh && y < h; y++ {
				for x := bx; x < bx+bw && x < w; x++ {
					c := base
					t := x - bx
					if !vertical {
						t = y - by
					}
					if t/4%2 == 1 {
						c[0] += amp // small steps on 4-pixel boundaries
						c[1] += amp
						c[2] += amp
					}
					set(x, y, c)
				}
			}
		}
	case "patch":
		// statistically uniform picture with one small textured patch
		bg := r.Intn(3)
		for y := 0; y < h; y++ {
			for x := 0; x < w; x++ {
				switch bg {
				case 0:
					set(x, y, base)
				case 1:
					set(x, y, lerp(x, w-1))
				default:
					v := r.Next()
					set(x, y, [3]uint8{base[0] + uint8(v%3), base[1] + uint8((v>>8)%3), base[2]})
				}
			}
		}
		pw, ph := 1+r.Intn(imax(1, imin(24, w))), 1+r.Intn(imax(1, imin(24, h)))
		px, py := r.Intn(w-pw+1), r.Intn(h-ph+1)
		for y := py; y < py+ph; y++ {
			for x := px; x < px+pw; x++ {
				v := r.Next()
				set(x, y, [3]uint8{uint8(v), uint8(v >> 8), uint8(v >> 16)})
			}
		}
	default:
		panic("unknown image family " + s.Family)
	}
	// alpha
	setA := func(x, y int, a uint8) { pix.Pix[y*pix.Stride+x*4+3] = a }
	switch s.Alpha {
	case "opaque", "":
	case "transparent":
		for y := 0; y < h; y++ {
			for x := 0; x < w; x++ {
				setA(x, y, 0)
			}
		}
	case "blocks":
		bs := 1 + r.Intn(9)
		for y := 0; y < h; y++ {
			for x := 0; x < w; x++ {
				if ((x/bs)+(y/bs))%2 == 0 {
					setA(x, y, 0)
				}
			}
		}
	case "stripes":
		bs := 1 + r.Intn(5)
		ver := r.Bool()
		for y := 0; y < h; y++ {
			for x := 0; x < w; x++ {
				k := y
				if ver {
					k = x
				}
				if (k/bs)%2 == 0 {
					setA(x, y, 0)
				}
			}
		}
	case "single":
		setA(r.Intn(w), r.Intn(h), uint8(r.Intn(255)))
	case "levels":
		n := s.Levels
		if n < 2 {
			n = 3
		}
		lv := make([]uint8, n)
		for i := range lv {
			lv[i] = uint8(r.Next())
		}
		lv[0] = 0
		bs := 1 + r.Intn(6)
		for y := 0; y < h; y++ {
			for x := 0; x < w; x++ {
				setA(x, y, lv[((x/bs)*7+(y/bs)*3)%n])
			}
		}
	case "gradient":
		for y := 0; y < h; y++ {
			for x := 0; x < w; x++ {
				setA(x, y, uint8((x+y)*255/(w+h-1)))
			}
		}
	case "noise":
		for y := 0; y < h; y++ {
			for x := 0; x < w; x++ {
				v := r.Next()
				a := uint8(v)
				switch (v >> 8) % 4 { // concentrate on the boundary values
				case 0:
					a = 0
				case 1:
					a = 255
				}
				setA(x, y, a)
			}
		}
	default:
		panic("unknown alpha pattern " + s.Alpha)
	}
	if s.Family == "pal" && w*h > 1<<20 {
		// very large palette pictures end with a copy of their first row
		copy(pix.Pix[(h-1)*pix.Stride:(h-1)*pix.Stride+4*w], pix.Pix[:4*w])
	}
	for x := 0; x < leadRun && x < w; x++ {
		pix.Pix[4*x], pix.Pix[4*x+1], pix.Pix[4*x+2], pix.Pix[4*x+3] = 0, 0, 0, 255
	}
	return wrapType(pix, s, r)
}

func wrapType(p *image.NRGBA, s ImgSpec, r *RNG) image.Image {
	w, h := s.W, s.H
	switch s.Type {
	case "nrgba", "":
		return p
	case "rgba":
		out := image.NewRGBA(p.Rect)
		for y := 0; y < h; y++ {
			for x := 0; x < w; x++ {
				c := p.NRGBAAt(x, y)
				if c.A == 0 {
					out.SetRGBA(x, y, color.RGBA{})
				} else {
					c.A = 255
					out.SetRGBA(x, y, color.RGBA{c.R, c.G, c.B, 255})
				}
			}
		}
		return out
	case "gray":
		out := image.NewGray(p.Rect)
		for y := 0; y < h; y++ {
			for x := 0; x < w; x++ {
				out.SetGray(x, y, color.Gray{p.Pix[y*p.Stride+x*4]})
			}
		}
		return out
	case "ycbcr":
		out := image.NewYCbCr(p.Rect, image.YCbCrSubsampleRatio420)
		for y := 0; y < h; y++ {
			for x := 0; x < w; x++ {
				c := p.NRGBAAt(x, y)
				yy, cb, cr := color.RGBToYCbCr(c.R, c.G, c.B)
				out.Y[out.YOffset(x, y)] = yy
				out.Cb[out.COffset(x, y)] = cb
				out.Cr[out.COffset(x, y)] = cr
			}
		}
		return out
	case "nrgba64":
		out := image.NewNRGBA64(p.Rect)
		for y := 0; y < h; y++ {
			for x := 0; x < w; x++ {
				c := p.NRGBAAt(x, y)
				out.SetNRGBA64(x, y, color.NRGBA64{uint16(c.R) * 0x101, uint16(c.G) * 0x101, uint16(c.B) * 0x101, uint16(c.A) * 0x101})
			}
		}
		return out
	case "paletted":
		// collect palette (<=256 colours incl. alpha variants); fall back to NRGBA
		idx := map[color.NRGBA]int{}
		var pal color.Palette
		for y := 0; y < h; y++ {
			for x := 0; x < w; x++ {
				c := p.NRGBAAt(x, y)
				if _, ok := idx[c]; !ok {
					if len(pal) == 256 {
						return p
					}
					idx[c] = len(pal)
					pal = append(pal, c)
				}
			}
		}
		out := image.NewPaletted(p.Rect, pal)
		for y := 0; y < h; y++ {
			for x := 0; x < w; x++ {
				out.SetColorIndex(x, y, uint8(idx[p.NRGBAAt(x, y)]))
			}
		}
		return out
	case "nrgba64sub", "rgbasub", "graysub", "palsub":
		// the same pixels as a view with non-zero origin into a larger image of that type
		inner := s
		inner.Type = map[string]string{"nrgba64sub": "nrgba64", "rgbasub": "rgba", "graysub": "gray", "palsub": "paletted"}[s.Type]
		ox, oy := 1+r.Intn(5), 1+r.Intn(5)
		bw, bh := w+ox+1+r.Intn(3), h+oy+1+r.Intn(3)
		small := wrapType(p, inner, r)
		switch sm := small.(type) {
		case *image.NRGBA64:
			big := image.NewNRGBA64(image.Rect(0, 0, bw, bh))
			for i := range big.Pix {
				big.Pix[i] = uint8(r.Next())
			}
			for y := 0; y < h; y++ {
				for x := 0; x < w; x++ {
					big.SetNRGBA64(x+ox, y+oy, sm.NRGBA64At(x, y))
				}
			}
			return big.SubImage(image.Rect(ox, oy, ox+w, oy+h))
		case *image.RGBA:
			big := image.NewRGBA(image.Rect(0, 0, bw, bh))
			for i := range big.Pix {
				big.Pix[i] = 255
			}
			for y := 0; y < h; y++ {
				for x := 0; x < w; x++ {
					big.SetRGBA(x+ox, y+oy, sm.RGBAAt(x, y))
				}
			}
			return big.SubImage(image.Rect(ox, oy, ox+w, oy+h))
		case *image.Gray:
			big := image.NewGray(image.Rect(0, 0, bw, bh))
			for i := range big.Pix {
				big.Pix[i] = uint8(r.Next())
			}
			for y := 0; y < h; y++ {
				for x := 0; x < w; x++ {
					big.SetGray(x+ox, y+oy, sm.GrayAt(x, y))
				}
			}
			return big.SubImage(image.Rect(ox, oy, ox+w, oy+h))
		case *image.Paletted:
			big := image.NewPaletted(image.Rect(0, 0, bw, bh), sm.Palette)
			for i := range big.Pix {
				big.Pix[i] = uint8(r.Intn(len(sm.Palette)))
			}
			for y := 0; y < h; y++ {
				for x := 0; x < w; x++ {
					big.SetColorIndex(x+ox, y+oy, sm.ColorIndexAt(x, y))
				}
			}
			return big.SubImage(image.Rect(ox, oy, ox+w, oy+h))
		}
		return small
	case "sub":
		// view with non-zero origin and larger stride into a bigger buffer filled with junk
		ox, oy := 1+r.Intn(5), 1+r.Intn(5)
		big := image.NewNRGBA(image.Rect(0, 0, w+ox+1+r.Intn(4), h+oy+1+r.Intn(4)))
		for i := range big.Pix {
			big.Pix[i] = uint8(r.Next())
		}
		for y := 0; y < h; y++ {
			copy(big.Pix[(y+oy)*big.Stride+ox*4:(y+oy)*big.Stride+(ox+w)*4], p.Pix[y*p.Stride:y*p.Stride+w*4])
		}
		return big.SubImage(image.Rect(ox, oy, ox+w, oy+h))
	}
	panic("unknown image type " + s.Type)
}

// ToNRGBA reads any image as non-premultiplied 8-bit RGBA with origin (0,0).
func ToNRGBA(img image.Image) *image.NRGBA {
	b := img.Bounds()
	out := image.NewNRGBA(image.Rect(0, 0, b.Dx(), b.Dy()))
	if n, ok := img.(*image.NRGBA); ok {
		for y := 0; y < b.Dy(); y++ {
			so := (y+b.Min.Y-n.Rect.Min.Y)*n.Stride + (b.Min.X-n.Rect.Min.X)*4
			copy(out.Pix[y*out.Stride:y*out.Stride+b.Dx()*4], n.Pix[so:so+b.Dx()*4])
		}
		return out
	}
	for y := 0; y < b.Dy(); y++ {
		for x := 0; x < b.Dx(); x++ {
			c := color.NRGBAModel.Convert(img.At(b.Min.X+x, b.Min.Y+y)).(color.NRGBA)
			o := y*out.Stride + x*4
			out.Pix[o], out.Pix[o+1], out.Pix[o+2], out.Pix[o+3] = c.R, c.G, c.B, c.A
		}
	}
	return out
}

// DigestImage hashes type, bounds and every sample of a decoded image.
func DigestImage(img image.Image) string {
	h := sha256.New()
	var hdr [16]byte
	b := img.Bounds()
	binary.LittleEndian.PutUint32(hdr[0:], uint32(b.Dx()))
	binary.LittleEndian.PutUint32(hdr[4:], uint32(b.Dy()))
	switch m := img.(type) {
	case *image.NRGBA:
		hdr[8] = 1
		h.Write(hdr[:])
		for y := 0; y < b.Dy(); y++ {
			o := (y+b.Min.Y-m.Rect.Min.Y)*m.Stride + (b.Min.X-m.Rect.Min.X)*4
			h.Write(m.Pix[o : o+b.Dx()*4])
		}
	case *image.YCbCr:
		hdr[8] = 2
		hdr[9] = byte(m.SubsampleRatio)
		h.Write(hdr[:])
		for y := b.Min.Y; y < b.Max.Y; y++ {
			o := m.YOffset(b.Min.X, y)
			h.Write(m.Y[o : o+b.Dx()])
		}
		cw, ch := (b.Dx()+1)/2, (b.Dy()+1)/2
		for y := 0; y < ch; y++ {
			h.Write(m.Cb[y*m.CStride : y*m.CStride+cw])
		}
		for y := 0; y < ch; y++ {
			h.Write(m.Cr[y*m.CStride : y*m.CStride+cw])
		}
	default:
		hdr[8] = 3
		h.Write(hdr[:])
		n := ToNRGBA(img)
		h.Write(n.Pix)
	}
	return fmt.Sprintf("%x", h.Sum(nil)[:12])
}

func DigestBytes(b []byte) string {
	s := sha256.Sum256(b)
	return fmt.Sprintf("%x", s[:12])
}

func imin(a, b int) int {
	if a < b {
		return a
	}
	return b
}
