package verifh

import (
	"encoding/base64"
	"encoding/json"
	"fmt"
	"os"
	"os/exec"
	"sort"
	"strings"

	"github.com/deepteams/webp/internal/vsim"
)

// C12 — results do not depend on the worker count (GOMAXPROCS).
// The worker count is the only thing that varies: canonical schedule, pools always
// miss, fresh world per count.

type C12Params struct {
	Op Op    `json:"op"`
	Ks []int `json:"ks"`
	// Fidelity: also run the un-rewritten library in a child process with real
	// GOMAXPROCS=k and require the same digest as the simulated uniform-k run.
	Fidelity bool `json:"fidelity,omitempty"`
}

type propC12 struct{}

func (propC12) ID() string     { return "C12" }
func (propC12) Level() string  { return "exploration" }
func (propC12) NewParams() any { return &C12Params{} }

func (propC12) Plan(tier string) (int, int) {
	if tier == "thorough" {
		return 120000, 0
	}
	return 2500, 0
}

var ksQuick = []int{1, 2, 3, 4, 8, 16}
var ksThorough = []int{1, 2, 3, 4, 5, 6, 7, 8, 10, 11, 12, 16, 32}

// genParallelOp draws an op on an image large enough to enable parallel sections.
func genParallelOp(r *RNG) Op {
	var op Op
	op.Kind = r.PickS("enc", "enc", "enc", "dec")
	switch v := r.Intn(100); {
	case v < 45: // lossy: import fork-joins need an NRGBA/RGBA source; row pipeline needs H>=49, Method>=3
		op.Img = GenImgSpec(r, 16, 160, 1)
		op.Img.H = r.Pick(49, 50, 64, 65, 80, 96, 97, 128, 144, 160)
		op.Opt = GenLossyOpts(r, 5, true)
	case v < 90: // lossless: tile thresholds (>=16 tiles), histogram thresholds (>=64, >=256 tiles)
		op.Img = GenImgSpec(r, 48, 200, 1)
		op.Opt = GenLosslessOpts(r, 5)
		if r.Pct(40) {
			// many histogram tiles, some of them empty (flat / repetitive areas), remap enabled
			op.Img.W, op.Img.H = r.Range(128, 420), r.Range(128, 320)
			op.Img.Family = r.PickS("regions", "patch", "text", "pal", "flat", "hgrad")
			op.Img.Runs = true
			op.Opt.Quality = float32(r.Pick(90, 95, 100))
			op.Opt.Method = r.Range(2, 4)
		}
	case v < 96: // lossless above the hash-chain threshold (50 000 px)
		op.Img = GenImgSpec(r, 224, 240, 1)
		op.Opt = GenLosslessOpts(r, 0)
		if op.Opt.Method > 4 {
			op.Opt.Method = r.Range(1, 4)
		}
	case v < 98: // extreme aspect ratios above the decoder's parallel threshold (rows < workers, few rows per worker)
		op.Img = GenImgSpec(r, 1, 2, 1)
		long := r.Pick(6700, 7000, 9000, 12500, 16383)
		short := r.Range(100000/long+1, 100000/long+9)
		if r.Bool() {
			op.Img.W, op.Img.H = long, short
		} else {
			op.Img.W, op.Img.H = short, long
		}
		op.Img.Family = r.PickS("flat", "hgrad", "pal", "text")
		op.Img.Type = "nrgba"
		op.Opt = GenLosslessOpts(r, 0)
		op.Opt.Method = r.Range(0, 1)
		op.Opt.Quality = 25
		op.Kind = "dec"
	default: // decoder parallel threshold
		op.Img = GenImgSpec(r, 317, 330, 1)
		op.Opt = GenLosslessOpts(r, 0)
		op.Opt.Method = r.Range(0, 2)
		op.Kind = "dec"
	}
	return op
}

func (propC12) Gen(seed uint64, tier string, idx int) any {
	r := NewRNG(seed)
	p := &C12Params{Op: genParallelOp(r)}
	if r.Pct(6) {
		a := GenAnimDecodeOp(r)
		p.Op = Op{Kind: "animdec", AnimDec: &a}
	} else if r.Pct(4) {
		p.Op = genAnimEncOp(r)
	}
	if tier == "thorough" {
		p.Ks = ksThorough
	} else {
		// 1 and 2 always, plus four other worker counts drawn per run
		p.Ks = []int{1, 2}
		rest := []int{3, 4, 5, 6, 7, 8, 10, 11, 12, 16}
		for len(p.Ks) < 6 {
			i := r.Intn(len(rest))
			p.Ks = append(p.Ks, rest[i])
			rest = append(rest[:i], rest[i+1:]...)
		}
		sort.Ints(p.Ks)
	}
	p.Fidelity = idx%40 == 0
	return p
}

func (propC12) Shrink(pp any) []any {
	p := pp.(*C12Params)
	var out []any
	if len(p.Ks) > 2 {
		for i := 1; i < len(p.Ks); i++ {
			q := *p
			q.Ks = []int{1, p.Ks[i]}
			out = append(out, &q)
		}
	}
	return out
}

func runOpWith(x *X, op Op, input []byte, cfg vsim.Config) (Result, *vsim.World) {
	var res Result
	w := vsim.NewWorld(cfg, nil, 0)
	w.Run(func() { res = ExecOp(op, input) })
	return res, w
}

func (propC12) Execute(pp any, x *X) *Violation {
	p := pp.(*C12Params)
	op := p.Op
	var input []byte
	if needsInput(op) {
		input = InputFor(op)
	}
	x.Workload(hashString(op.Key()))
	var base Result
	baseK := 1
	sitesMulti := 0
	for i, k := range p.Ks {
		res, w := runOpWith(x, op, input, vsim.Config{Policy: vsim.PolCanonical, Procs: k})
		x.account(w)
		if v := x.WorldViolation("C12", w); v != nil {
			return v
		}
		if x.Inconclusive != "" {
			return nil
		}
		for _, st := range w.SiteStats() {
			if st.Multi > 0 {
				sitesMulti++
			}
		}
		if i == 0 {
			base, baseK = res, k
			continue
		}
		x.Count(fmt.Sprintf("compared_k%d", k), 1)
		if !res.Same(base) {
			sites := attributeSites(op, input, k, baseK, base)
			v := &Violation{Prop: "C12", Sig: "k-diff:" + op.Kind + ":" + codecFamily(op) + ":sites=" + strings.Join(sites, ","),
				Detail: fmt.Sprintf("%s: worker count %d -> %s; worker count %d -> %s; minimal set of worker-count sites that must see %d (others kept at %d) for the difference: %v", op.String(), baseK, base.Short(), k, res.Short(), k, baseK, sites)}
			if x.IsKnown != nil && x.IsKnown(v.Sig) {
				// an open known finding: note it and keep comparing the remaining worker
				// counts against this one, so that it cannot mask another difference
				x.NoteKnown(v.Sig, v.Detail)
				base, baseK = res, k
				continue
			}
			return v
		}
		if p.Fidelity && !x.Quiet && (k == p.Ks[1] || k == 4) {
			if d, err := realOp(op, input, k); err != nil {
				x.Inconclusive = "fidelity probe failed: " + err.Error()
				return nil
			} else if d != res.Short() {
				x.Inconclusive = fmt.Sprintf("fidelity: rewritten library under the simulator (uniform k=%d) -> %s but the un-rewritten library with GOMAXPROCS=%d -> %s for %s", k, res.Short(), k, d, op.String())
				return nil
			}
			x.Count("fidelity_probes_ok", 1)
		}
	}
	// distinct case = (op, k set); non-trivial when some site actually took its parallel branch
	x.Case(hashString(op.Key()), sitesMulti > 0)
	if sitesMulti > 0 {
		x.Count("ops_reaching_a_parallel_branch", 1)
	}
	x.Sample(map[string]any{"op": op.String(), "ks": p.Ks, "result": base.Short()})
	return nil
}

// attributeSites delta-debugs the set of worker-count sites: start with every
// site at k, move sites back to 1 one at a time while the difference persists.
// (A superset of what a process can see; used for attribution only.)
func attributeSites(op Op, input []byte, k, baseK int, base Result) []string {
	// discover the sites this op reads
	_, w := runOpWith(nil, op, input, vsim.Config{Policy: vsim.PolCanonical, Procs: k})
	var sites []string
	for _, st := range w.SiteStats() {
		sites = append(sites, st.Name)
	}
	sort.Strings(sites)
	atBase := map[string]bool{}
	differs := func() bool {
		sp := map[string]int{}
		for _, s := range sites {
			if atBase[s] {
				sp[s] = baseK
			}
		}
		res, w := runOpWith(nil, op, input, vsim.Config{Policy: vsim.PolCanonical, Procs: k, SiteProcs: sp})
		if w.Aborted || w.NPanics > 0 {
			return true
		}
		return !res.Same(base)
	}
	for _, s := range sites {
		atBase[s] = true
		if !differs() {
			atBase[s] = false
		}
	}
	var need []string
	for _, s := range sites {
		if !atBase[s] {
			need = append(need, s)
		}
	}
	return need
}

// realOp executes op with the un-rewritten library in a fresh child process with
// real GOMAXPROCS=k and returns Result.Short().
func realOp(op Op, input []byte, k int) (string, error) {
	bin := os.Getenv("VERIF_REAL_BIN")
	if bin == "" {
		return "", fmt.Errorf("VERIF_REAL_BIN not set")
	}
	req := realReq{Op: op, Input: base64.StdEncoding.EncodeToString(input)}
	b, _ := json.Marshal(req)
	cmd := exec.Command(bin, "realop")
	cmd.Env = append(os.Environ(), fmt.Sprintf("GOMAXPROCS=%d", k))
	cmd.Stdin = strings.NewReader(string(b))
	out, err := cmd.Output()
	if err != nil {
		return "", fmt.Errorf("%v: %s", err, string(out))
	}
	return strings.TrimSpace(string(out)), nil
}

type realReq struct {
	Op    Op     `json:"op"`
	Input string `json:"input"`
}

func realOpMain() int {
	var req realReq
	if err := json.NewDecoder(os.Stdin).Decode(&req); err != nil {
		fmt.Fprintln(os.Stderr, err)
		return 2
	}
	in, _ := base64.StdEncoding.DecodeString(req.Input)
	if RewrittenLibrary() {
		fmt.Fprintln(os.Stderr, "realop must run in the vreal binary (un-rewritten library)")
		return 2
	}
	res := ExecOp(req.Op, in)
	fmt.Println(res.Short())
	return 0
}

func (propC12) Describe() PropDoc {
	return PropDoc{
		Rule: "one run = one seeded operation (encode or decode, all codecs, image large enough for the parallel sections) executed in a fresh world for every uniform worker count k in the tier's set, canonical schedule, pools always miss, results compared with k=1. distinct = distinct operation descriptor; non-trivial = at least one worker-count site returned k>1 to the library during the run (a parallel branch could be taken).",
		Assumptions: []string{
			"uniform worker count at every site models a process started with GOMAXPROCS=k; verified on a sample by running the un-rewritten library in child processes with the real setting (fidelity probe)",
			"per-site worker counts are used only to attribute a difference already found",
			"sampling over images/options: a clean batch is evidence, not proof",
		},
		Real:      []string{"every line of deepteams/webp, rewritten by simgen; plus the un-rewritten library in child processes for the fidelity probe"},
		Simulated: []string{"runtime.GOMAXPROCS(0) at every call site", "sync/atomic/pool primitives (canonical schedule)"},
		Reference: []string{"the same operation with worker count 1"},
		MustReach: []string{"ops_reaching_a_parallel_branch"},
	}
}

func codecFamily(op Op) string {
	if op.Kind == "animdec" || op.Kind == "animenc" {
		return "anim"
	}
	if op.Opt.Lossless {
		return "lossless"
	}
	return "lossy"
}
