package verifh

import (
	"bufio"
	"image/png"
	"sync"

	"bytes"
	"encoding/binary"
	"encoding/json"
	"flag"
	"fmt"
	webp "github.com/deepteams/webp"
	"os"
	"os/exec"
	"path/filepath"
	"regexp"
	"runtime"
	"sort"
	"strconv"
	"strings"
	"time"

	"github.com/deepteams/webp/internal/vsim"
)

var props = map[string]Property{}

func register(p Property) { props[p.ID()] = p }

// outDir is where evidence and replay files are written (VERIF_OUT overrides it:
// used when checks are run against a deliberately broken copy of the library).
func outDir() string {
	if d := os.Getenv("VERIF_OUT"); d != "" {
		return d
	}
	return verifDir()
}

func verifDir() string {
	if d := os.Getenv("VERIF_DIR"); d != "" {
		return d
	}
	return "/verif"
}

// KnownFinding is one line of /verif/known_findings.jsonl.
type KnownFinding struct {
	Property  string `json:"property"`
	Signature string `json:"signature"`
	Status    string `json:"status"` // open | fixed
	What      string `json:"what"`
	Commit    string `json:"commit,omitempty"`
}

func loadKnown(prop string) []KnownFinding {
	f, err := os.Open(filepath.Join(verifDir(), "known_findings.jsonl"))
	if err != nil {
		return nil
	}
	defer f.Close()
	var out []KnownFinding
	sc := bufio.NewScanner(f)
	sc.Buffer(make([]byte, 1<<20), 1<<20)
	for sc.Scan() {
		line := strings.TrimSpace(sc.Text())
		if line == "" || strings.HasPrefix(line, "#") {
			continue
		}
		var k KnownFinding
		if json.Unmarshal([]byte(line), &k) == nil && k.Property == prop && k.Status == "open" {
			out = append(out, k)
		}
	}
	return out
}

func matchKnown(known []KnownFinding, sig string) *KnownFinding {
	for i := range known {
		if known[i].Signature == sig {
			return &known[i]
		}
	}
	return nil
}

// Main is the entry point of the vcheck binary.
func Main() {
	if len(os.Args) < 2 {
		fmt.Fprintln(os.Stderr, "usage: vcheck drive|work|replay ...")
		os.Exit(2)
	}
	switch os.Args[1] {
	case "drive":
		os.Exit(driveMain(os.Args[2:]))
	case "work":
		os.Exit(workMain(os.Args[2:]))
	case "replay":
		os.Exit(replayMain(os.Args[2:]))
	case "storedump":
		os.Exit(storeDump(os.Args[2:]))
	case "c05dump":
		os.Exit(c05Dump(os.Args[2:]))
	case "realop":
		os.Exit(realOpMain())
	case "animdump":
		os.Exit(animDump(os.Args[2:]))
	case "vp8craft-selftest":
		os.Exit(vp8CraftSelfTest(os.Args[2:]))
	case "props":
		var ids []string
		for id := range props {
			ids = append(ids, id)
		}
		sort.Strings(ids)
		fmt.Println(strings.Join(ids, " "))
		os.Exit(0)
	}
	fmt.Fprintln(os.Stderr, "unknown subcommand", os.Args[1])
	os.Exit(2)
}

// RewrittenLibrary reports whether this binary links the simgen-rewritten library.
func RewrittenLibrary() bool { return len(vsim.ProcsSites) > 0 }

func envSeed() uint64 {
	if s := os.Getenv("VERIF_SEED"); s != "" {
		if v, err := strconv.ParseUint(s, 10, 64); err == nil {
			return v
		}
		if v, err := strconv.ParseInt(s, 10, 64); err == nil {
			return uint64(v)
		}
	}
	return 20260923
}

// warmUp triggers every lazily initialised table of the library once, in a
// canonical world, so that a run does not depend on its position in a batch.
func warmUp() {
	x := &X{Stats: NewStats(), Quiet: true}
	r := NewRNG(12345)
	ops := []Op{
		{Kind: "enc", Img: ImgSpec{Family: "smooth", W: 33, H: 65, Seed: 1, Alpha: "gradient", Type: "nrgba"}, Opt: defaultOptSpec()},
		{Kind: "enc", Img: ImgSpec{Family: "smooth", W: 20, H: 20, Seed: 2, Alpha: "opaque", Type: "nrgba"}, Opt: func() OptSpec { o := defaultOptSpec(); o.UseSharpYUV = true; o.Preprocessing = 3; return o }()},
		{Kind: "enc", Img: ImgSpec{Family: "pal", Colors: 5, W: 20, H: 20, Seed: 3, Alpha: "blocks", Type: "nrgba"}, Opt: func() OptSpec { o := defaultOptSpec(); o.Lossless = true; return o }()},
	}
	_ = r
	for _, k := range []int{1, 4} {
		x.Solo(k, func() {
			for _, op := range ops {
				res := ExecOp(op, nil)
				if !res.Err {
					ExecOp(Op{Kind: "dec"}, res.Bytes)
					ExecOp(Op{Kind: "cfg"}, res.Bytes)
					ExecOp(Op{Kind: "feat"}, res.Bytes)
				}
			}
			warmUpExtra()
		})
	}
}

// ------------------------------------------------------------------ worker

type workerOut struct {
	Stats        *Stats            `json:"stats"`
	Known        map[string]int    `json:"known_seen"`
	KnownSample  map[string]string `json:"known_sample"`
	Candidate    string            `json:"candidate,omitempty"`
	Done         int               `json:"done"`
	StoppedEarly bool              `json:"stopped_early"`
	WallS        float64           `json:"wall_s"`
}

func writeHashSet(path string, m map[uint64]struct{}) {
	buf := make([]byte, 0, 8*len(m))
	keys := make([]uint64, 0, len(m))
	for k := range m {
		keys = append(keys, k)
	}
	sort.Slice(keys, func(i, j int) bool { return keys[i] < keys[j] })
	var b [8]byte
	for _, k := range keys {
		binary.LittleEndian.PutUint64(b[:], k)
		buf = append(buf, b[:]...)
	}
	os.WriteFile(path, buf, 0o644)
}

func readHashSet(path string, into map[uint64]struct{}) {
	b, err := os.ReadFile(path)
	if err != nil {
		return
	}
	for i := 0; i+8 <= len(b); i += 8 {
		into[binary.LittleEndian.Uint64(b[i:])] = struct{}{}
	}
}

func workMain(args []string) int {
	fs := flag.NewFlagSet("work", flag.ExitOnError)
	propID := fs.String("prop", "", "")
	tier := fs.String("tier", "quick", "")
	seed := fs.Uint64("seed", 1, "")
	wi := fs.Int("w", 0, "")
	wn := fs.Int("n", 1, "")
	count := fs.Int("count", 1, "")
	out := fs.String("out", "", "")
	deadline := fs.Float64("deadline", 0, "seconds")
	traceFile := fs.String("trace", "", "write one line per run: idx run_seed fingerprint outcome (determinism self-test)")
	order := fs.String("order", "fwd", "fwd | rev | evenodd: order in which this worker's runs are executed")
	nokf := fs.Bool("no-known", false, "ignore known_findings.jsonl")
	cold := fs.Bool("cold", false, "cold start: no warm-up; the run is the first use of the library in this process")
	fs.Parse(args)
	prop := props[*propID]
	if prop == nil {
		fmt.Fprintln(os.Stderr, "unknown property", *propID)
		return 2
	}
	start := time.Now()
	if vsim.RaceEnabled && *out != "" && !*cold {
		// a race report during the warm-up kills the process too: leave a marker
		rf := ReplayFile{Property: *propID, Signature: "race", Seed: *seed, Tier: *tier, Race: true, Params: json.RawMessage(`{"warmup":true}`), WarmupOnly: true}
		b, _ := json.MarshalIndent(rf, "", " ")
		os.WriteFile(*out+".current.json", b, 0o644)
	}
	if !*cold {
		warmUp()
	}
	known := loadKnown(*propID)
	st := NewStats()
	wo := &workerOut{Stats: st, Known: map[string]int{}, KnownSample: map[string]string{}}
	race := vsim.RaceEnabled
	flush := func() {
		wo.WallS = time.Since(start).Seconds()
		b, _ := json.Marshal(wo)
		os.WriteFile(*out+".stats.json", b, 0o644)
		writeHashSet(*out+".hashes", st.hashes)
		writeHashSet(*out+".nontriv", st.nontrivial)
		writeHashSet(*out+".workloads", st.workloads)
	}
	var idxs []int
	for idx := *wi; idx < *count; idx += *wn {
		idxs = append(idxs, idx)
	}
	switch *order {
	case "rev":
		for i, j := 0, len(idxs)-1; i < j; i, j = i+1, j-1 {
			idxs[i], idxs[j] = idxs[j], idxs[i]
		}
	case "evenodd":
		var a, b []int
		for i, v := range idxs {
			if i%2 == 0 {
				a = append(a, v)
			} else {
				b = append(b, v)
			}
		}
		idxs = append(a, b...)
	}
	var trace *os.File
	if *traceFile != "" {
		trace, _ = os.Create(*traceFile)
		defer trace.Close()
	}
	if *nokf {
		known = nil
	}
	for _, idx := range idxs {
		if *deadline > 0 && time.Since(start).Seconds() > *deadline {
			wo.StoppedEarly = true
			break
		}
		runSeed := DeriveN(*seed, "run", idx)
		genTier := *tier
		if race {
			genTier += "+race" // the -race batch uses smaller workloads (see DESIGN.md 2.4)
		}
		if *cold {
			genTier += "+cold"
		}
		params := prop.Gen(runSeed, genTier, idx)
		if race {
			// a ThreadSanitizer report kills the process: leave the case behind first
			pj, _ := json.Marshal(params)
			rf := ReplayFile{Property: *propID, Signature: "race", Seed: *seed, RunSeed: runSeed, Tier: *tier, Race: true, Params: pj, Cold: *cold}
			b, _ := json.MarshalIndent(rf, "", " ")
			os.WriteFile(*out+".current.json", b, 0o644)
		}
		x := &X{Tier: *tier, Race: race, Stats: st}
		x.IsKnown = func(sig string) bool { return matchKnown(known, sig) != nil }
		x.NoteKnown = func(sig, detail string) {
			wo.Known[sig]++
			if _, ok := wo.KnownSample[sig]; !ok {
				wo.KnownSample[sig] = detail
			}
		}
		wd := armWatchdog(*propID, *seed, runSeed, *tier, race, params, *out)
		v := prop.Execute(params, x)
		wd.Stop()
		st.Runs++
		wo.Done++
		if trace != nil {
			out := "ok"
			if v != nil {
				out = "VIOL:" + v.Sig
			}
			if x.Inconclusive != "" {
				out = "INCONCLUSIVE"
			}
			fmt.Fprintf(trace, "%d %d %016x %s\n", idx, runSeed, x.Fingerprint, out)
			if v != nil {
				continue // self-test mode: keep going
			}
		}
		if x.Inconclusive != "" {
			st.Inconclusive = append(st.Inconclusive, fmt.Sprintf("run_seed=%d: %s", runSeed, x.Inconclusive))
		}
		if v == nil {
			continue
		}
		if k := matchKnown(known, v.Sig); k != nil {
			wo.Known[v.Sig]++
			if _, ok := wo.KnownSample[v.Sig]; !ok {
				wo.KnownSample[v.Sig] = v.Detail
			}
			continue
		}
		// unknown violation: minimise, write the candidate replay file, stop.
		var dec []vsim.Decision
		if x.Explored != nil {
			dec = x.Explored.Decisions()
		}
		before := len(dec)
		if *cold {
			// a cold run cannot be repeated in this (now warm) process: report it as it is
			pj, _ := json.Marshal(params)
			rf := ReplayFile{Property: *propID, Signature: v.Sig, Detail: v.Detail, Seed: *seed, RunSeed: runSeed, Tier: *tier, Race: race, Params: pj, Decisions: packDecisions(dec), Strict: true, Cold: true}
			b, _ := json.MarshalIndent(rf, "", " ")
			cand := *out + ".cand.json"
			os.WriteFile(cand, b, 0o644)
			wo.Candidate = cand
			flush()
			return 3
		}
		mp, md, mv, tries := Minimise(prop, params, dec, v, *tier, race, 400, x.IsKnown)
		if mv == nil && strings.HasPrefix(v.Sig, "cpu:") {
			// a time measurement that does not repeat is noise of the machine (other
			// processes, page faults), not a property of the code: counted, not reported
			st.Count("time_budget_exceeded_but_not_repeatable", 1)
			continue
		}
		if mv == nil {
			// does not even reproduce in-process: infrastructure trouble
			fmt.Fprintf(os.Stderr, "NOT-REPRODUCIBLE in-process: %s (run_seed=%d)\n", v.String(), runSeed)
			flush()
			return 2
		}
		pj, _ := json.Marshal(mp)
		rf := ReplayFile{Property: *propID, Signature: mv.Sig, Detail: mv.Detail, Seed: *seed, RunSeed: runSeed, Tier: *tier, Race: race, Params: pj, Decisions: packDecisions(md), Strict: true, Cold: *cold}
		rf.Minimised.From = before
		rf.Minimised.To = countSwitches(md)
		_ = tries
		b, _ := json.MarshalIndent(rf, "", " ")
		cand := *out + ".cand.json"
		os.WriteFile(cand, b, 0o644)
		wo.Candidate = cand
		flush()
		return 3
	}
	if race {
		os.Remove(*out + ".current.json")
	}
	flush()
	return 0
}

// armWatchdog: a run that does not return within the budget is a hang (for C05 a
// violation candidate, for every other property infrastructure trouble): the case
// is left behind as a replay file and the process exits with status 4.
type watchdog struct {
	mu      sync.Mutex
	stopped bool
	t       *time.Timer
}

func (w *watchdog) Stop() {
	w.mu.Lock()
	w.stopped = true
	w.t.Stop()
	w.mu.Unlock()
}

// The budget is CPU time of this process (an endless loop burns it at one core per
// second whatever else the machine is doing, a slow but finite run on a loaded machine does
// not), with a wall-clock backstop of ten times the budget for a run that blocks for real.
func armWatchdog(propID string, seed, runSeed uint64, tier string, race bool, params any, out string) *watchdog {
	budget := 90 * time.Second
	if race {
		budget = 300 * time.Second
	}
	if m := os.Getenv("VERIF_WATCHDOG_MULT"); m != "" {
		if v, err := strconv.Atoi(m); err == nil && v > 0 {
			budget *= time.Duration(v)
		}
	}
	startCPU, startWall := processCPU(), time.Now()
	w := &watchdog{}
	fire := func() {
		pj, _ := json.Marshal(params)
		rf := ReplayFile{Property: propID, Signature: "hang", Detail: fmt.Sprintf("run did not return within %v of CPU time", budget), Seed: seed, RunSeed: runSeed, Tier: tier, Race: race, Params: pj}
		b, _ := json.MarshalIndent(rf, "", " ")
		if out != "" {
			os.WriteFile(out+".hang.json", b, 0o644)
		}
		fmt.Fprintf(os.Stderr, "WATCHDOG: run_seed=%d did not return within %v of CPU time\n", runSeed, budget)
		os.Exit(4)
	}
	var check func()
	check = func() {
		w.mu.Lock()
		defer w.mu.Unlock()
		if w.stopped {
			return
		}
		if processCPU()-startCPU >= budget || time.Since(startWall) >= 10*budget {
			fire()
		}
		w.t = time.AfterFunc(2*time.Second, check)
	}
	w.mu.Lock()
	w.t = time.AfterFunc(2*time.Second, check)
	w.mu.Unlock()
	return w
}

// countSwitches: number of scheduling decisions (a lower bound on information in
// the trace; preemption count is reported by the world itself on replay).
func countSwitches(d []vsim.Decision) int {
	n := 0
	for _, x := range d {
		if x.Kind != vsim.DSched && x.V != 0 {
			n++
		}
	}
	return n
}

// ------------------------------------------------------------------ replay

func replayMain(args []string) int {
	if len(args) < 1 {
		fmt.Fprintln(os.Stderr, "usage: vcheck replay <file>")
		return 2
	}
	b, err := os.ReadFile(args[0])
	if err != nil {
		fmt.Fprintln(os.Stderr, err)
		return 2
	}
	var rf ReplayFile
	if err := json.Unmarshal(b, &rf); err != nil {
		fmt.Fprintln(os.Stderr, err)
		return 2
	}
	prop := props[rf.Property]
	if prop == nil {
		fmt.Fprintln(os.Stderr, "unknown property", rf.Property)
		return 2
	}
	if rf.Race && !vsim.RaceEnabled {
		fmt.Fprintln(os.Stderr, "this replay file needs the -race build (vcheck-race)")
		return 2
	}
	if !rf.Cold {
		warmUp()
	}
	if rf.WarmupOnly {
		fmt.Println("NOT-REPRODUCED (warm-up operations completed without a race report)")
		return 0
	}
	params := prop.NewParams()
	if err := json.Unmarshal(rf.Params, params); err != nil {
		fmt.Fprintln(os.Stderr, err)
		return 2
	}
	x := &X{Tier: rf.Tier, Race: vsim.RaceEnabled, Stats: NewStats(), Quiet: true}
	kn := loadKnown(rf.Property)
	x.IsKnown = func(sig string) bool { return matchKnown(kn, sig) != nil }
	x.NoteKnown = func(string, string) {}
	if rf.Strict {
		x.ReplayDecisions = unpackDecisions(rf.Decisions)
		x.ReplayMode = 2
	}
	wd := armWatchdog(rf.Property, rf.Seed, rf.RunSeed, rf.Tier, vsim.RaceEnabled, params, "")
	v := prop.Execute(params, x)
	wd.Stop()
	if x.Explored != nil && x.Explored.Diverged != "" {
		fmt.Printf("DIVERGED: %s\n", x.Explored.Diverged)
		return 2
	}
	if v == nil {
		fmt.Println("NOT-REPRODUCED")
		return 0
	}
	fmt.Printf("REPRODUCED property=%s signature=%s\n%s\n", v.Prop, v.Sig, v.Detail)
	if x.Explored != nil {
		fmt.Printf("explored world: steps=%d tasks=%d preemptions=%d\n", x.Explored.Steps, x.Explored.NTasks(), x.Explored.Probes[vsim.PPreempt])
	}
	if v.Sig != rf.Signature && rf.Signature != "race" {
		fmt.Printf("NOTE: signature differs from the file's (%s)\n", rf.Signature)
	}
	return 1
}

// ------------------------------------------------------------------ driver

var sigSlugRe = regexp.MustCompile(`[^A-Za-z0-9_.+-]+`)

func slug(s string) string {
	s = sigSlugRe.ReplaceAllString(s, "_")
	if len(s) > 80 {
		s = s[:80]
	}
	return s
}

type batchResult struct {
	outs       []*workerOut
	prefixes   []string
	candidates []string
	raceDeaths []string // .current.json of workers killed by a race report
	raceLogs   []string
	hangs      []string
	infra      []string
	wall       float64
}

func runBatch(bin, propID, tier string, seed uint64, count, workers int, tmp, tag string, deadline float64, extra ...string) *batchResult {
	br := &batchResult{}
	if count <= 0 {
		return br
	}
	if workers > count {
		workers = count
	}
	start := time.Now()
	type res struct {
		i    int
		code int
		err  error
		log  string
	}
	ch := make(chan res, workers)
	for i := 0; i < workers; i++ {
		prefix := filepath.Join(tmp, fmt.Sprintf("%s-%d", tag, i))
		br.prefixes = append(br.prefixes, prefix)
		go func(i int, prefix string) {
			args := []string{"work", "-prop", propID, "-tier", tier, "-seed", fmt.Sprint(seed), "-w", fmt.Sprint(i), "-n", fmt.Sprint(workers), "-count", fmt.Sprint(count), "-out", prefix, "-deadline", fmt.Sprint(deadline)}
			args = append(args, extra...)
			cmd := exec.Command(bin, args...)
			cmd.Env = append(os.Environ(), "GORACE=halt_on_error=1 exitcode=66", "GOMAXPROCS=1")
			var eb bytes.Buffer
			cmd.Stderr = &eb
			cmd.Stdout = &eb
			err := cmd.Run()
			code := 0
			if err != nil {
				if ee, ok := err.(*exec.ExitError); ok {
					code = ee.ExitCode()
					err = nil
				}
			}
			ch <- res{i, code, err, eb.String()}
		}(i, prefix)
	}
	for k := 0; k < workers; k++ {
		r := <-ch
		prefix := br.prefixes[r.i]
		switch {
		case r.err != nil:
			br.infra = append(br.infra, fmt.Sprintf("worker %d: %v", r.i, r.err))
		case r.code == 0 || r.code == 3:
			b, err := os.ReadFile(prefix + ".stats.json")
			var wo workerOut
			if err != nil || json.Unmarshal(b, &wo) != nil {
				br.infra = append(br.infra, fmt.Sprintf("worker %d: no stats (%v)", r.i, err))
				continue
			}
			br.outs = append(br.outs, &wo)
			if wo.Candidate != "" {
				br.candidates = append(br.candidates, wo.Candidate)
			}
		case r.code == 4:
			br.hangs = append(br.hangs, prefix+".hang.json")
		case r.code == 66:
			br.raceDeaths = append(br.raceDeaths, prefix+".current.json")
			br.raceLogs = append(br.raceLogs, r.log)
		default:
			br.infra = append(br.infra, fmt.Sprintf("worker %d exit %d: %s", r.i, r.code, tail(r.log, 2000)))
		}
	}
	br.wall = time.Since(start).Seconds()
	return br
}

func tail(s string, n int) string {
	if len(s) > n {
		return s[len(s)-n:]
	}
	return s
}

// raceSignature extracts the two access sites of a ThreadSanitizer report.
func raceSignature(log string) string {
	lines := strings.Split(log, "\n")
	var sites []string
	for i, l := range lines {
		t := strings.TrimSpace(l)
		if (strings.HasPrefix(t, "Write at") || strings.HasPrefix(t, "Read at") || strings.HasPrefix(t, "Previous write at") || strings.HasPrefix(t, "Previous read at")) && i+1 < len(lines) {
			// first library frame below
			for j := i + 1; j < len(lines) && strings.TrimSpace(lines[j]) != ""; j++ {
				f := strings.TrimSpace(lines[j])
				if strings.HasPrefix(f, "github.com/deepteams/webp") && !strings.Contains(f, "/internal/vsim") && !strings.Contains(f, "/internal/verifh") {
					if k := strings.LastIndex(f, "("); k > 0 {
						f = f[:k]
					}
					sites = append(sites, strings.TrimPrefix(f, "github.com/deepteams/webp"))
					break
				}
			}
		}
	}
	if len(sites) > 2 {
		sites = sites[:2]
	}
	sort.Strings(sites)
	if len(sites) == 0 {
		return "race:unknown"
	}
	return "race:" + strings.Join(sites, "|")
}

func driveMain(args []string) int {
	fs := flag.NewFlagSet("drive", flag.ExitOnError)
	propID := fs.String("prop", "", "")
	tier := fs.String("tier", "quick", "")
	raceBin := fs.String("race-bin", "", "")
	workers := fs.Int("workers", 0, "")
	scale := fs.Float64("scale", 1.0, "multiply the planned number of runs")
	fs.Parse(args)
	prop := props[*propID]
	if prop == nil {
		fmt.Fprintln(os.Stderr, "unknown property", *propID)
		return 2
	}
	if *workers <= 0 {
		*workers = runtime.NumCPU()
		if *workers > 16 {
			*workers = 16
		}
	}
	seed := envSeed()
	fmt.Printf("VERIF_SEED=%d property=%s tier=%s\n", seed, *propID, *tier)
	start := time.Now()
	self, _ := os.Executable()
	tmp, err := os.MkdirTemp("", "verif-run-")
	if err != nil {
		fmt.Fprintln(os.Stderr, err)
		return 2
	}
	defer os.RemoveAll(tmp)
	plain, race := prop.Plan(*tier)
	plain = int(float64(plain) * *scale)
	race = int(float64(race) * *scale)
	deadline := 240.0
	if *tier == "thorough" {
		deadline = 2700
	}
	if d := os.Getenv("VERIF_DEADLINE"); d != "" {
		if v, err := strconv.ParseFloat(d, 64); err == nil {
			deadline = v
		}
	}
	known := loadKnown(*propID)
	var batches []*batchResult
	var batchBins []string
	b1 := runBatch(self, *propID, *tier, seed, plain, *workers, tmp, "plain", deadline)
	batches = append(batches, b1)
	batchBins = append(batchBins, self)
	var b2 *batchResult
	if race > 0 && *raceBin != "" && len(b1.candidates) == 0 {
		// ThreadSanitizer's shadow-memory page faults do not scale across processes in
		// this VM (measured: total throughput is flat from 1 to 16 workers): use 4.
		rw := *workers
		if rw > 4 {
			rw = 4
		}
		b2 = runBatch(*raceBin, *propID, *tier, Derive(seed, "race"), race, rw, tmp, "race", deadline)
		batches = append(batches, b2)
		batchBins = append(batchBins, *raceBin)
	}

	// cold-start runs: one fresh process per run, no warm-up, so that first-use
	// initialisation (lazily built tables, sync.Once) happens under the explored
	// schedule with several clients. Each "worker" executes exactly one run.
	if cp, ok := prop.(interface{ ColdPlan(tier string) (int, int) }); ok && len(b1.candidates) == 0 {
		cplain, crace := cp.ColdPlan(*tier)
		for off := 0; off < cplain; off += *workers {
			n := *workers
			if off+n > cplain {
				n = cplain - off
			}
			bc := runBatch(self, *propID, *tier, Derive(seed, fmt.Sprint("cold", off)), n, n, tmp, fmt.Sprint("cold", off), deadline, "-cold")
			batches = append(batches, bc)
			batchBins = append(batchBins, self)
		}
		if *raceBin != "" {
			for off := 0; off < crace; off += 4 {
				n := 4
				if off+n > crace {
					n = crace - off
				}
				bc := runBatch(*raceBin, *propID, *tier, Derive(seed, fmt.Sprint("coldrace", off)), n, n, tmp, fmt.Sprint("coldrace", off), deadline, "-cold")
				batches = append(batches, bc)
				batchBins = append(batchBins, *raceBin)
			}
		}
	}

	exit := 0
	violations := 0
	var infra []string
	for _, b := range batches {
		infra = append(infra, b.infra...)
	}

	// confirm candidates in a fresh process; report each signature once
	reported := map[string]bool{}
	confirm := func(bin, file string) (int, string) {
		cmd := exec.Command(bin, "replay", file)
		cmd.Env = append(os.Environ(), "GORACE=halt_on_error=1 exitcode=66")
		out, _ := cmd.CombinedOutput()
		code := 0
		if cmd.ProcessState != nil {
			code = cmd.ProcessState.ExitCode()
		}
		return code, string(out)
	}
	keep := func(src string, sig string) string {
		dir := filepath.Join(outDir(), "replays", *propID)
		os.MkdirAll(dir, 0o755)
		dst := filepath.Join(dir, slug(sig)+".json")
		b, _ := os.ReadFile(src)
		os.WriteFile(dst, b, 0o644)
		return dst
	}
	for bi, b := range batches {
		bin := batchBins[bi]
		for _, c := range b.candidates {
			var rf ReplayFile
			cb, _ := os.ReadFile(c)
			json.Unmarshal(cb, &rf)
			if reported[rf.Signature] {
				continue
			}
			code, out := confirm(bin, c)
			if code == 1 && strings.Contains(out, "REPRODUCED property="+*propID+" signature="+rf.Signature) {
				reported[rf.Signature] = true
				dst := keep(c, rf.Signature)
				fmt.Printf("VIOLATION property=%s replay=%s\n", *propID, dst)
				fmt.Printf("  signature: %s\n  %s\n", rf.Signature, strings.ReplaceAll(firstLines(rf.Detail, 12), "\n", "\n  "))
				violations++
				exit = 1
			} else {
				infra = append(infra, fmt.Sprintf("candidate %s (sig %s) did not reproduce from its minimised replay in a fresh process (exit %d): %s", c, rf.Signature, code, tail(out, 600)))
			}
		}
		for _, c := range b.hangs {
			if *propID != "C05" {
				infra = append(infra, "watchdog: a run did not return within its budget (replay file "+c+")")
				continue
			}
			if reported["hang"] {
				continue // one confirmed hang is the verdict; the others are not re-run (each costs 4x the budget)
			}
			cmd := exec.Command(bin, "replay", c)
			cmd.Env = append(os.Environ(), "VERIF_WATCHDOG_MULT=4")
			cmd.Run()
			if cmd.ProcessState != nil && cmd.ProcessState.ExitCode() == 4 {
				if !reported["hang"] {
					reported["hang"] = true
					dst := keep(c, "hang")
					fmt.Printf("VIOLATION property=%s replay=%s\n  signature: hang (entry points did not return within 4x the watchdog budget in a fresh process)\n", *propID, dst)
					violations++
					exit = 1
				}
			} else {
				infra = append(infra, "watchdog hit did not repeat with 4x budget in a fresh process: "+c)
			}
		}
		for i, c := range b.raceDeaths {
			sig := raceSignature(b.raceLogs[i])
			if reported[sig] {
				continue
			}
			// patch signature + detail into the file, then confirm
			var rf ReplayFile
			cb, _ := os.ReadFile(c)
			json.Unmarshal(cb, &rf)
			rf.Signature = sig
			rf.Detail = tail(b.raceLogs[i], 6000)
			nb, _ := json.MarshalIndent(rf, "", " ")
			os.WriteFile(c, nb, 0o644)
			if k := matchKnown(known, sig); k != nil {
				reported[sig] = true
				fmt.Printf("KNOWN-FINDING: property=%s %s (%s)\n", *propID, k.What, sig)
				continue
			}
			code, out := confirm(bin, c)
			if code == 66 && raceSignature(out) == sig {
				reported[sig] = true
				dst := keep(c, sig)
				fmt.Printf("VIOLATION property=%s replay=%s\n", *propID, dst)
				fmt.Printf("  signature: %s (happens-before data race under a serialised schedule)\n  %s\n", sig, strings.ReplaceAll(firstLines(raceExcerpt(b.raceLogs[i]), 30), "\n", "\n  "))
				violations++
				exit = 1
			} else {
				infra = append(infra, fmt.Sprintf("race report %s did not reproduce in a fresh process (exit %d, sig %s)", sig, code, raceSignature(out)))
			}
		}
	}

	// merge stats
	merged := NewStats()
	knownSeen := map[string]int{}
	knownSample := map[string]string{}
	stoppedEarly := false
	var runsPlain, runsRace int64
	for bi, b := range batches {
		for _, wo := range b.outs {
			mergeStats(merged, wo.Stats)
			if batchBins[bi] == self {
				runsPlain += wo.Stats.Runs
			} else {
				runsRace += wo.Stats.Runs
			}
			for k, v := range wo.Known {
				knownSeen[k] += v
				if _, ok := knownSample[k]; !ok {
					knownSample[k] = wo.KnownSample[k]
				}
			}
			if wo.StoppedEarly {
				stoppedEarly = true
			}
		}
		for _, p := range b.prefixes {
			readHashSet(p+".hashes", merged.hashes)
			readHashSet(p+".nontriv", merged.nontrivial)
			readHashSet(p+".workloads", merged.workloads)
		}
	}
	for _, k := range known {
		n := knownSeen[k.Signature]
		fmt.Printf("KNOWN-FINDING: property=%s %s [signature %s; observed %d times in this run]\n", *propID, k.What, k.Signature, n)
	}
	if len(merged.Inconclusive) > 0 {
		infra = append(infra, fmt.Sprintf("%d inconclusive runs (step budget / divergence), e.g. %s", len(merged.Inconclusive), merged.Inconclusive[0]))
	}
	doc := prop.Describe()
	if exit == 0 && merged.Runs > 0 {
		for _, m := range doc.MustReach {
			if merged.Probes[m] == 0 && merged.Counters[m] == 0 && merged.Faults[m] == 0 {
				infra = append(infra, "self-check: workload does not reach "+m)
			}
		}
	}
	wall := time.Since(start).Seconds()
	writeEvidence(prop, doc, *tier, seed, merged, runsPlain, runsRace, wall, violations, knownSeen, stoppedEarly, batches)
	fmt.Printf("runs=%d (plain %d, race-build %d) worlds=%d steps=%d distinct_interleavings=%d distinct_nontrivial=%d wall=%.1fs\n", merged.Runs, runsPlain, runsRace, merged.Worlds, merged.Steps, len(merged.hashes), len(merged.nontrivial), wall)
	if exit == 0 && len(infra) > 0 {
		for _, s := range infra {
			fmt.Println("INFRA:", s)
		}
		return 2
	}
	for _, s := range infra {
		fmt.Println("INFRA:", s)
	}
	return exit
}

func firstLines(s string, n int) string {
	l := strings.Split(s, "\n")
	if len(l) > n {
		l = l[:n]
	}
	return strings.Join(l, "\n")
}

func raceExcerpt(log string) string {
	if i := strings.Index(log, "WARNING: DATA RACE"); i >= 0 {
		return log[i:]
	}
	return log
}

func mergeStats(into, s *Stats) {
	if s == nil {
		return
	}
	into.Runs += s.Runs
	into.Steps += s.Steps
	into.Decisions += s.Decisions
	into.MultiPoints += s.MultiPoints
	into.Tasks += s.Tasks
	into.Worlds += s.Worlds
	for k, v := range s.Probes {
		into.Probes[k] += v
	}
	for k, v := range s.Sites {
		w := into.Sites[k]
		w[0] += v[0]
		w[1] += v[1]
		into.Sites[k] = w
	}
	for k, v := range s.Faults {
		into.Faults[k] += v
	}
	for k, v := range s.Counters {
		into.Counters[k] += v
	}
	for k, v := range s.Policies {
		into.Policies[k] += v
	}
	into.Inconclusive = append(into.Inconclusive, s.Inconclusive...)
	for _, x := range s.Samples {
		if len(into.Samples) < 4 {
			into.Samples = append(into.Samples, x)
		}
	}
}

func writeEvidence(prop Property, doc PropDoc, tier string, seed uint64, st *Stats, runsPlain, runsRace int64, wall float64, violations int, knownSeen map[string]int, stoppedEarly bool, batches []*batchResult) {
	cov := map[string]any{
		"evaluations":                   st.Runs,
		"distinct_nontrivial":           len(st.nontrivial),
		"rule":                          doc.Rule,
		"samples":                       st.Samples,
		"exhaustive":                    false,
		"runs_plain_build":              runsPlain,
		"runs_race_build":               runsRace,
		"simulated_worlds":              st.Worlds,
		"scheduling_steps_simulated":    st.Steps,
		"simulated_time_note":           "this repository has no clock or timer; the only notion of simulated time is the number of scheduling steps",
		"scheduling_points_with_choice": st.MultiPoints,
		"decisions_recorded":            st.Decisions,
		"tasks_simulated":               st.Tasks,
		"distinct_interleavings":        len(st.hashes),
		"distinct_workloads":            len(st.workloads),
		"faults_fired":                  st.Faults,
		"reach_probes":                  st.Probes,
		"worker_count_sites":            st.Sites,
		"policies":                      st.Policies,
		"counters":                      st.Counters,
		"known_findings_observed":       knownSeen,
		"stopped_early_at_deadline":     stoppedEarly,
		"components":                    map[string]any{"real": doc.Real, "simulated": doc.Simulated, "reference": doc.Reference},
	}
	if wall > 0 {
		cov["runs_per_hour"] = int64(float64(st.Runs) / wall * 3600)
	}
	if len(st.Samples) == 0 {
		cov["samples"] = []any{"(no run completed)"}
	}
	ev := map[string]any{
		"property_id": prop.ID(),
		"tier":        tier,
		"seed":        int64(seed & 0x7fffffffffffffff),
		"level":       prop.Level(),
		"coverage":    cov,
		"assumptions": doc.Assumptions,
		"wall_s":      wall,
		"violations":  violations,
	}
	b, _ := json.MarshalIndent(ev, "", " ")
	dir := filepath.Join(outDir(), "evidence")
	os.MkdirAll(dir, 0o755)
	os.WriteFile(filepath.Join(dir, prop.ID()+".json"), b, 0o644)
}

// storeDump writes the file Encode produces for a C01/C02/C07 replay (alone,
// canonical schedule, the replay's worker count) to stdout, and the source image
// as PNG to <arg2> if given: for checking a finding against the un-rewritten
// library and other decoders.
func storeDump(args []string) int {
	b, err := os.ReadFile(args[0])
	if err != nil {
		return 2
	}
	var rf ReplayFile
	json.Unmarshal(b, &rf)
	var p StoreParams
	json.Unmarshal(rf.Params, &p)
	warmUp()
	img := Generate(p.Img)
	var out []byte
	x := &X{Stats: NewStats(), Quiet: true}
	x.Solo(p.Sched.Procs, func() {
		wr := &SimWriter{}
		if webp.Encode(wr, img, p.Opt.ToOptions()) == nil {
			out = wr.Data
		}
	})
	os.Stdout.Write(out)
	if len(args) > 1 {
		f, _ := os.Create(args[1])
		png.Encode(f, img)
		f.Close()
	}
	return 0
}
