#!/bin/bash
# Builds the simulator binaries from /repo's current working tree + /verif/harness.
# Output: /verif/build/vcheck-<hash> and /verif/build/vcheck-race-<hash>; prints the hash.
# Exit 2 on any build trouble (never a verdict).
set -u
export GOFLAGS=-mod=mod GOPROXY=off GOSUMDB=off GOTOOLCHAIN=local
REPO=${VERIF_REPO:-/repo}
V=$(cd "$(dirname "$0")/.." && pwd)
GO=go1.26.8
mkdir -p $V/build
exec 9>$V/build/.lock
flock 9
H=$( (cd $REPO && find . -type f \( -name '*.go' -o -name '*.s' -o -name '*.h' -o -name go.mod \) ! -name '*_test.go' ! -path './.git/*' ! -path './testc/*' ! -path './benchmark/*' ! -path './cmd/*' -print0 | sort -z | xargs -0 sha256sum; cd $V && find harness simgen third_party -type f -print0 | sort -z | xargs -0 sha256sum) | sha256sum | cut -c1-16)
WANT_RACE=${VERIF_RACE:-1}
if [ -x $V/build/vcheck-$H ] && [ -x $V/build/vreal-$H ] && { [ "$WANT_RACE" = 0 ] || [ -x $V/build/vcheck-race-$H ]; }; then echo $H; exit 0; fi
S=$(mktemp -d ${TMPDIR:-/tmp}/verif-scratch-XXXXXX)
trap 'rm -rf "$S"' EXIT
( set -e
  if [ ! -x $V/build/simgen ] || [ $V/simgen/main.go -nt $V/build/simgen ]; then
    (cd $V/simgen && $GO build -o $V/build/simgen .)
  fi
  $V/build/simgen $REPO $S
  mkdir -p $S/internal/verifx
  cp -r $V/harness/internal/vsim/. $S/internal/vsim/
  cp -r $V/harness/internal/verifh $S/internal/verifh
  mkdir -p $S/cmd && cp -r $V/harness/cmd/vcheck $S/cmd/vcheck
  cp -r $V/third_party/ximage $S/internal/verifx/ximage
  cd $S
  if [ ! -x $V/build/vcheck-$H ]; then
    $GO build -tags verif -o $V/build/vcheck-$H.tmp ./cmd/vcheck && mv $V/build/vcheck-$H.tmp $V/build/vcheck-$H
  fi
  if [ "$WANT_RACE" != 0 ] && [ ! -x $V/build/vcheck-race-$H ]; then
    $GO build -race -tags verif -o $V/build/vcheck-race-$H.tmp ./cmd/vcheck && mv $V/build/vcheck-race-$H.tmp $V/build/vcheck-race-$H
  fi
  if [ ! -x $V/build/vreal-$H ]; then
    # the same harness linked with the UN-rewritten library (fidelity / fresh-process probes)
    R=$S/real; mkdir -p $R
    rsync -a --prune-empty-dirs --exclude='.git/' --exclude='/testc/' --exclude='/benchmark/' --exclude='/cmd/' --exclude='/testdata/' --exclude='*_test.go' --include='*/' --include='*.go' --include='*.s' --include='*.h' --include='go.mod' --exclude='*' $REPO/ $R/
    [ -f $R/go.mod ] || exit 1
    mkdir -p $R/internal/verifx $R/cmd
    cp -r $V/harness/internal/vsim $R/internal/vsim
    printf 'package vsim\n\n// ProcsSites is empty: this build links the un-rewritten library.\nvar ProcsSites = []string{}\n' > $R/internal/vsim/sites_gen.go
    cp -r $V/harness/internal/verifh $R/internal/verifh
    cp -r $V/harness/cmd/vcheck $R/cmd/vcheck
    cp -r $V/third_party/ximage $R/internal/verifx/ximage
    (cd $R && $GO build -tags verif -o $V/build/vreal-$H.tmp ./cmd/vcheck && mv $V/build/vreal-$H.tmp $V/build/vreal-$H)
  fi
) >&2 || { echo "BUILD-FAILED" >&2; [ -n "${VERIF_KEEP_SCRATCH:-}" ] && { trap - EXIT; echo "scratch kept at $S" >&2; }; exit 2; }
# keep only the newest two builds
ls -t $V/build/vcheck-* $V/build/vreal-* 2>/dev/null | grep -v "\-$H" | tail -n +7 | xargs -r rm -f
echo $H
