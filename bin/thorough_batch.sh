#!/bin/bash
# usage: thorough_batch.sh <seed> <deadline-seconds> <props...>  -- thorough tiers one after the other (exploration aid)
cd "$(dirname "$0")/.."
S=$1; D=$2; shift 2
for p in "$@"; do
  s=$(date +%s)
  VERIF_SEED=$S VERIF_DEADLINE=$D VERIF_OUT=$(pwd)/out-thorough ./check $p thorough > thorough.$p.log 2>&1
  echo "$p exit=$? $(( $(date +%s)-s ))s"
  grep -h "^VIOLATION\|^INFRA\|signature\|^runs=" thorough.$p.log | grep -v KNOWN | head -12
done
