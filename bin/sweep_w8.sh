#!/bin/bash
# usage: sweep_w8.sh <list-file>   lines: <patch> <check ids...>
# runs each mutant against the named checks (quick tier) in its own scratch worktree
VDIR=$(cd "$(dirname "$0")/.." && pwd)
while read -r patch ids; do
  [ -z "$patch" ] && continue
  echo "== $patch"
  if git -C /repo apply --check "$patch" 2>/dev/null; then base=""; else base=${SWEEP_BASE:-1f1a358}; fi
  MUT_BASE=${base:-$(git -C /repo rev-parse HEAD)} MUT_WT=${MUT_WT:-/tmp/wt-sweep} MUT_OUT=/tmp/sweep-out $VDIR/bin/try_mutant.sh "$patch" quick $ids
done < "$1"
