#!/bin/bash
# usage: try_mutant.sh <patch.diff> <tier> <prop> [prop...]
# Applies the patch in a scratch worktree of /repo (never in /repo itself), optionally
# checks that the library still builds and its suite passes (SUITE=1), runs the given
# checks against it and prints one line per check. The worktree is reset afterwards.
VDIR=$(cd "$(dirname "$0")/.." && pwd)
PATCH=$(readlink -f "$1"); TIER=$2; shift 2
WT=${MUT_WT:-/tmp/wt-try}
if [ ! -d $WT ]; then git -C /repo worktree add -f $WT HEAD >/dev/null 2>&1 || exit 2; fi
git -C $WT checkout -q --detach ${MUT_BASE:-$(git -C /repo rev-parse HEAD)} 2>/dev/null; git -C $WT checkout -- . ; git -C $WT clean -fdq
git -C $WT apply "$PATCH" || { echo "PATCH-DOES-NOT-APPLY $PATCH"; exit 2; }
if [ "${SUITE:-0}" = 1 ]; then
  (cd $WT && export GOFLAGS=-mod=mod GOPROXY=off && go build ./... && go test -vet=off -count=1 ./... >/tmp/suite.$$.log 2>&1) && echo "suite: pass" || { echo "suite: FAIL (mutant rejected)"; tail -5 /tmp/suite.$$.log; }
  rm -f /tmp/suite.$$.log
fi
for P in "$@"; do
  s=$(date +%s)
  out=$(cd "$VDIR" && VERIF_REPO=$WT VERIF_OUT=${MUT_OUT:-/tmp/verif-mut-out} ./check $P $TIER 2>&1); rc=$?
  e=$(( $(date +%s) - s ))
  sig=$(echo "$out" | grep -A1 "^VIOLATION" | grep signature | head -2 | tr '\n' ' ' | cut -c1-220)
  infra=$(echo "$out" | grep -m1 "^INFRA" | cut -c1-160)
  echo "  $P exit=$rc ${e}s $sig $infra"
done
git -C $WT checkout -- . ; git -C $WT clean -fdq
