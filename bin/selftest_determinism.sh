#!/bin/bash
# Determinism self-test: the same run indices executed by many processes under
# different host GOMAXPROCS values, execution orders and batch neighbours must give
# identical per-run fingerprints (trace hash + step count of every world) and outcomes.
# usage: selftest_determinism.sh [count] [props...]
cd "$(dirname "$0")/.."
export VERIF_DIR=$(pwd)
N=${1:-120}; shift
PROPS=${@:-C01 C02 C05 C06 C07 C08 C09 C10 C11 C12 C14 C17 C18}
H=$(bin/build.sh) || exit 2
export VERIF_REAL_BIN=$VERIF_DIR/build/vreal-$H
T=$(mktemp -d); trap 'rm -rf $T' EXIT
rc=0
for P in $PROPS; do
  k=0; pids=""
  for gmp in 1 4 16; do for ord in fwd rev evenodd; do for rep in 1 2 3 4; do
    k=$((k+1))
    BIN=build/vcheck-$H
    # one in twelve processes uses the -race build with the plain tier's generator... skip: generators differ (+race)
    env GOMAXPROCS=$gmp $BIN work -prop $P -tier quick -seed 424242 -w 0 -n 1 -count $N -order $ord -trace $T/$P.$k.trace -no-known -out $T/$P.$k >/dev/null 2>&1 &
    pids="$pids $!"
    if [ $((k % 12)) = 0 ]; then wait $pids; pids=""; fi
  done; done; done
  wait $pids
  ref=""; bad=0
  for f in $T/$P.*.trace; do
    s=$(sort -n $f | sha256sum | cut -c1-16)
    if [ -z "$ref" ]; then ref=$s; reff=$f; elif [ "$s" != "$ref" ]; then bad=$((bad+1)); echo "DIVERGENCE $P: $f vs $reff"; diff <(sort -n $f) <(sort -n $reff) | head -6; fi
  done
  lines=$(wc -l < $reff)
  echo "$P: $k processes x $lines runs, divergent processes: $bad"
  [ $bad -gt 0 ] && rc=1
done
exit $rc
