#!/usr/bin/env python3
"""Stores wave-8 mutants under /verif/seeded from /tmp/mut8-*/ and sweep logs.
usage: store_w8.py <sweep-log> [<sweep-log>...]"""
import json, os, re, shutil, sys, glob
res = {}
cur = None
for log in sys.argv[1:]:
    for line in open(log, errors="replace"):
        m = re.match(r"== (/tmp/mut8-(\w+)/(m\d)/patch.diff)", line)
        if m:
            cur = (m.group(2), m.group(3)); res.setdefault(cur, [])
            continue
        m = re.match(r"\s+(C\d\d) exit=(\d+) (\d+)s\s*(.*)", line)
        if m and cur:
            sigs = re.findall(r"signature: (\S+)", m.group(4))
            res[cur].append({"check": m.group(1), "exit": int(m.group(2)), "seconds": int(m.group(3)), "signatures": sigs})
for (grp, mi), checks in sorted(res.items()):
    src = f"/tmp/mut8-{grp}/{mi}"
    if not os.path.exists(src + "/confirm.json"):
        print("skip (no confirmation):", grp, mi); continue
    conf = json.load(open(src + "/confirm.json"))
    if not (conf.get("builds") and conf.get("suite_passes_with_patch") and conf.get("demo_without_patch") == "pass" and conf.get("demo_with_patch") == "fail"):
        print("skip (not confirmed):", grp, mi, conf); continue
    dst = f"/verif/seeded/w8-{grp}-{mi}"
    shutil.rmtree(dst, ignore_errors=True)
    os.makedirs(dst)
    shutil.copy(src + "/patch.diff", dst + "/patch.diff")
    if os.path.isdir(src + "/demo"):
        shutil.copytree(src + "/demo", dst + "/demo", ignore=shutil.ignore_patterns("*.log", "*.bin", "*.webp", "*.test", "go.sum"))
    try:
        meta = json.load(open(src + "/meta.json"))
    except Exception as e:
        meta = {"property": grp[:3], "summary": "(meta.json of the sub-agent unreadable: %s)" % e}
    meta["origin"] = "wave 8: independent sub-agent given the property text, a focus area and a private worktree"
    meta["base_commit"] = "1f1a358"
    meta["confirmed_by_me"] = {"how": "a separate verification sub-agent re-ran, in the scratch worktree: demo without patch, git apply, go build ./..., the whole suite, demo with patch, revert", **conf}
    caught = [c for c in checks if c["exit"] == 1]
    meta["checks_run"] = checks
    meta["checks_result"] = "; ".join(f'{c["check"]} quick: {", ".join(c["signatures"]) or "VIOLATION"}' for c in caught) or "NOT CAUGHT by: " + ", ".join(c["check"] for c in checks)
    meta["how_to_run_checks"] = f"bin/try_mutant.sh seeded/w8-{grp}-{mi}/patch.diff quick <check ids>   (MUT_BASE=1f1a358 if the patch no longer applies to HEAD)"
    json.dump(meta, open(dst + "/meta.json", "w"), indent=1)
    print(grp, mi, meta["checks_result"])
