#!/usr/bin/env python3
"""Regenerates /verif/MANIFEST.json. Edit the tables below, not the JSON."""
import json, sys

CLAIMED = {
 "C01": ("exploration", "6.1", "seeded storage transactions (lossless Encode through a simulated writer, Decode through a simulated reader) under drawn worker count, schedule policy and pool behaviour; oracle: decoded pixels == source pixels. Sampling over images/options, not proof."),
 "C02": ("exploration", "6.1", "seeded storage transactions with writer faults; on acknowledged success the stored bytes are checked by an independent RIFF walker, this package's decoder and the independent x/image decoders. Sampling, not proof."),
 "C05": ("exploration", "6.3", "stored-byte corruption (bit flips, torn/duplicated/spliced blocks, length tampering, hostile headers) applied to valid files on the simulated disk, plus hand-crafted VP8L streams and hand-crafted VP8 key frames (own bit writer / boolean encoder) with damage variants; every decoding entry point run on the result incl. parallel frame decoding under the scheduler; oracle: no panic / deadlock / over-budget, well-formed results."),
 "C06": ("exploration", "6.4", "lossy encodes under drawn worker count and schedule (serial and row-pipelined encoder); oracle: encoder reconstruction (verif hook) == decoder pre-filter planes == independent decoder's pre-filter planes."),
 "C07": ("exploration", "6.1", "seeded storage transactions of lossy images with transparency across alpha compression/filter/quality/method; oracle: decoded alpha == source alpha (or the documented level law)."),
 "C08": ("exploration", "6.6", "histories of AddFrame calls on the lossless animation encoder with tolerated codec-failure faults and writer faults; oracle: playback == reference list of canvases/durations."),
 "C09": ("exploration", "6.5", "histories of NextFrame/HasNext/Reset calls on AnimDecoder over programmatically built animations; oracle: reference compositor written from the container specification, snapshot digests."),
 "C10": ("exploration", "6.2", "seeded search over goroutine interleavings (every sync/atomic/pool/channel operation is a scheduling point; uniform, sticky, PCT, round-robin, delay-bounded policies) of the real library; oracles: no deadlock state, no panic, no happens-before race (TSan on the serialised schedule), result == solo result."),
 "C11": ("exploration", "6.2", "seeded call histories (incl. hostile inputs and runs of hand-crafted VP8 key frames that set / rely on the decoder's persistent header state) in one world whose pools return PRNG-chosen reused objects; oracle: result == first-call-in-fresh-world result; returned values stay unmodified."),
 "C12": ("exploration", "6.2", "the same operation in fresh worlds for every uniform worker count; oracle: result == worker-count-1 result; fidelity probe against the un-rewritten library with real GOMAXPROCS."),
 "C14": ("exploration", "6.7", "histories of Muxer calls with writer faults at every Write of Assemble; oracle: reference muxer model + demuxer + container parser (compared directly, field by field and chunk by chunk) + independent walker; histories include application chunks, unrepresentable offsets and alpha prefixes the container has no place for."),
 "C17": ("fault_enumeration", "6.8", "every proper prefix (torn write at every byte) of every generated still file x reader behaviours; oracle: error, or result identical to the full file."),
 "C18": ("exploration", "6.6", "histories of AddFrame calls in lossy / mixed mode; oracle: played-back alpha == source alpha per frame."),
}

NOTE = "trusted base: the simgen rewrite is mechanical (imports, GOMAXPROCS reads, go statements, channels) and checked by the fidelity probe; the vsim primitives implement sync semantics; oracles are independent reference code under /verif (walker, compositor, muxer model, vendored x/image)."

NA = {
 "C03": "conformance of the VP8L decoder over all valid bitstreams is a pure function of the input bytes (needs a generator of arbitrary valid streams + a specification oracle, i.e. differential testing); no schedule, fault, clock or history can change it. Its one environment-dependent facet is decided under C10/C11/C12.",
 "C04": "bit-exactness of VP8/ALPH decoding against RFC 6386 is a pure function of the input bytes; nothing the simulator controls can affect it.",
 "C13": "assembly vs portable kernels are selected by build constraints / an init-time CPUID probe: a comparison between two builds on identical inputs plus a GOOS/GOARCH build matrix; no schedule, fault or history dimension.",
 "C15": "byte-exact metadata storage and flag derivation are pure functions of (image, options, blobs); the only seam on the path is the io.Writer, decided under C02.",
 "C16": "agreement of the header parsers with a full decode is a pure function of the file bytes; disagreement is found by input construction, not by any interleaving or fault.",
 "C19": "independence from pixel storage layout is a pure function of the image value; nothing the simulator controls can affect it.",
 "C20": "totality of option validation and sentinel equivalences is a pure function of the options struct; nothing the simulator controls can affect it.",
}

def main():
    active = sys.argv[1:]  # property ids whose checks exist
    checks = []
    for pid in sorted(CLAIMED):
        if active and pid not in active:
            continue
        level, ref, text = CLAIMED[pid]
        checks.append({
            "property_id": pid,
            "quick_cmd": f"./check {pid} quick",
            "thorough_cmd": f"./check {pid} thorough",
            "evidence_file": f"/verif/evidence/{pid}.json",
            "replay_cmd_template": "./check replay {path}",
            "engine": "vsim",
            "level_claimed": {"category": level, "text": text, "design_ref": "DESIGN.md section " + ref},
            "level_note": NOTE,
            "technique": "deterministic simulation with fault injection: seeded scheduler/fault search over the real code, replayable decision lists" if level == "exploration" else "deterministic simulation: exhaustive enumeration of torn-write points per generated file",
        })
    na = [{"property_id": k, "reason": v} for k, v in sorted(NA.items())]
    for pid in sorted(CLAIMED):
        if active and pid not in active:
            na.append({"property_id": pid, "reason": "check under construction in this session (see DESIGN.md); not claimed yet"})
    m = {
        "version": 1,
        "setup_cmd": "bin/build.sh >/dev/null",
        "hooks": {
            "guard": "verif",
            "enable": "bin/build.sh copies /repo's working tree to a scratch module, applies the simgen rewrite and builds with `go1.26.8 build -tags verif`",
            "baseline_off_cmd": "cd /repo && GOFLAGS=-mod=mod GOPROXY=off go test -vet=off -count=1 ./...",
            "source_commits": HOOK_COMMITS,
            "add_only": True,
        },
        "engines": [{"name": "vsim", "path": "/verif/harness/internal/vsim", "serves_properties": [c["property_id"] for c in checks],
                     "kind_free_text": "deterministic cooperative scheduler + simulated sync/atomic/pool/channel/IO primitives linked with the simgen-rewritten real library; seeded policies, decision recording, strict replay, delta-debugging minimiser"}],
        "checks": checks,
        "not_applicable": sorted(na, key=lambda x: x["property_id"]),
        "notes": "See DESIGN.md. known_findings.jsonl lists open findings (suppressed by exact signature) and fixed ones (suppress nothing).",
    }
    json.dump(m, open("/verif/MANIFEST.json", "w"), indent=1)

HOOK_COMMITS = []
try:
    HOOK_COMMITS = [l.strip() for l in open("/verif/bin/hook_commits.txt") if l.strip()]
except FileNotFoundError:
    pass

main()
